/* VERIF-UNIT
{
 "name": "p1_extra_isize_detect",
 "props": ["C02"],
 "level": "U",
 "tier": "quick",
 "harness": "h_xs_detect",
 "replace": ["check_ea_in_inode"],
 "includes": ["e2fsck", "lib/support"],
 "unwind": 3,
 "unwind_reason": "check_inode_extra_space is loop-free (check_ea_in_inode, which loops, is replaced by a contract)",
 "functions": ["e2fsck/pass1.c:check_inode_extra_space"],
 "assumes": ["inode record of P1_ISIZE = 256 bytes (s_inode_size 256, dynamic revision) in a scratch buffer of exactly that size, all 256 bytes arbitrary; e2fsck -n (every question declined)",
	     "check_ea_in_inode is replaced by a contract whose precondition is the format need 128 + i_extra_isize + 4 <= inode size and the presence of the EA magic (a checked call-site obligation) and whose effect is a ghost call counter only",
	     "no contract enforced (4500-line TU): CHECKs in the harness"],
 "native": false
}
*/
/* VERIF-UNIT
{
 "name": "p1_extra_isize_detect_512",
 "props": ["C02"],
 "level": "U",
 "tier": "quick",
 "harness": "h_xs_detect",
 "replace": ["check_ea_in_inode"],
 "includes": ["e2fsck", "lib/support"],
 "defines": ["P1_ISIZE=512u"],
 "unwind": 3,
 "unwind_reason": "loop-free",
 "functions": ["e2fsck/pass1.c:check_inode_extra_space"],
 "assumes": ["as p1_extra_isize_detect with 512-byte inodes"],
 "native": false
}
*/
/* VERIF-UNIT
{
 "name": "p1_extra_isize_converge",
 "props": ["C01"],
 "level": "U",
 "tier": "quick",
 "harness": "h_xs_converge",
 "replace": ["check_ea_in_inode"],
 "includes": ["e2fsck", "lib/support"],
 "unwind": 3,
 "unwind_reason": "loop-free",
 "functions": ["e2fsck/pass1.c:check_inode_extra_space"],
 "assumes": ["256-byte inode record, arbitrary bytes, i_extra_isize violating the format predicate; e2fsck -y (every question accepted) in the first run, arbitrary answers in the second, which operates on the inode as written by the e2fsck_write_inode_full stub",
	     "s_want_extra_isize is 0 or satisfies the same bounds: pass 0 (super.c:check_super_block, PR_0_BAD_WANT_EXTRA_ISIZE, accepted under -y) has repaired it before pass 1 runs",
	     "check_ea_in_inode replaced as in p1_extra_isize_detect: the in-inode EA region that the repaired i_extra_isize exposes is assumed to be answered by check_ea_in_inode itself (not part of this unit)"],
 "native": false
}
*/
/* VERIF-UNIT
{
 "name": "p1_extra_isize_sound",
 "props": ["C05"],
 "level": "U",
 "tier": "quick",
 "tier_after_fix": "quick",
 "harness": "h_xs_sound",
 "replace": ["check_ea_in_inode"],
 "includes": ["e2fsck", "lib/support"],
 "unwind": 3,
 "unwind_reason": "loop-free",
 "functions": ["e2fsck/pass1.c:check_inode_extra_space"],
 "assumes": ["256-byte inode record, arbitrary bytes subject to: i_extra_isize satisfies the format predicate, and none of the *_extra timestamp fields that EXIST in the inode (lie below 128 + i_extra_isize) shows the ambiguous pre-1970 encoding; bytes behind 128 + i_extra_isize are in-inode EA space / unused and completely arbitrary",
	     "ctx->now arbitrary; fix_problem answers arbitrary",
	     "check_ea_in_inode replaced as in p1_extra_isize_detect (healthy EA region: no effect)",
	     "FAILS on the pinned tree: findings/C05_p1_epoch_fix_clobbers_ea (the epoch repair reads and rewrites *_extra fields that lie outside i_extra_isize, i.e. inside the in-inode EA region)"],
 "native": false
}
*/
/* VERIF-UNIT
{
 "name": "p1_extra_epoch_greyzone",
 "props": ["C05", "C01"],
 "level": "U",
 "tier": "quick",
 "harness": "h_xs_epoch",
 "replace": ["check_ea_in_inode"],
 "includes": ["e2fsck", "lib/support"],
 "unwind": 3,
 "unwind_reason": "loop-free",
 "functions": ["e2fsck/pass1.c:check_inode_extra_space"],
 "assumes": ["256-byte inode record with a format-valid i_extra_isize large enough for all four *_extra fields (>= 24) so that the statement does not depend on findings/C05_p1_epoch_fix_clobbers_ea, and leaving room for an in-inode EA area (with i_extra_isize >= inode size - 128 - 4 check_inode_extra_space returns before it looks at the timestamps: the grey zone is then simply not addressed); at least one existing timestamp shows the ambiguous encoding; ctx->now before the year 2242 cut-off",
	     "characterisation of the documented grey zone: only PR_1_EA_TIME_OUT_OF_RANGE (PR_NO_OK) is raised; accepted: only the two epoch bits of the ambiguous fields change, the inode is written, a second run raises nothing"],
 "native": false
}
*/
/*
 * e2fsck/pass1.c:check_inode_extra_space — i_extra_isize bounds, presence test for in-inode extended attributes, the
 * "pre-1970 timestamp" repair.  Format predicates: specs/pass1_format.h ("i_extra_isize", "extra timestamp bits").
 */
struct in_xs {
	unsigned char ino_bytes[1024];	/* the inode record (first P1_ISIZE bytes used), arbitrary */
	unsigned int ino;
	unsigned int k;			/* ghost byte index into the record ("for every byte") */
	unsigned short want_extra_isize;
	long long now;
	unsigned char mode;
	unsigned char choice[8];
};
struct in_xs IN;
#include "verif_in.h"
#include "p1_pre.h"
#include "p1_common.h"

unsigned int xs_ea_calls;

/* replaced: the call-site obligation is what the in-inode EA walker needs from its caller (storage_size =
 * inode size - 128 - i_extra_isize must hold the 4-byte magic, which must be there) */
static void check_ea_in_inode(e2fsck_t ctx, struct problem_context *pctx, struct ea_quota *ea_ibody_quota)
	REQUIRES(128u + ((struct ext2_inode_large *) pctx->inode)->i_extra_isize + 4u <= P1_ISIZE)
	REQUIRES(*(__u32 *) ((char *) pctx->inode + 128 + ((struct ext2_inode_large *) pctx->inode)->i_extra_isize) ==
		 P1F_EA_MAGIC)
	ASSIGNS(xs_ea_calls)
	ENSURES(xs_ea_calls == OLD(xs_ea_calls) + 1);

struct xs_world {
	e2fsck_t ctx;
	ext2_filsys fs;
	struct ext2_super_block *sb;
	unsigned char *rec;
	struct problem_context pctx;
	struct ea_quota q;
	unsigned char b0;
};

#define XS_B ((const unsigned char *) IN.ino_bytes)

static void xs_setup(struct xs_world *w, int mode)
{
	w->ctx = malloc(sizeof(*w->ctx));
	w->fs = malloc(sizeof(*w->fs));
	w->sb = malloc(sizeof(*w->sb));
	w->rec = malloc(P1_ISIZE);		/* e2fsck_pass1: "scratch inode", max(inode size, 160) bytes */
	ASSUME(w->ctx && w->fs && w->sb && w->rec);
	memset(w->sb, 0, sizeof(*w->sb));
	memcpy(w->rec, IN.ino_bytes, P1_ISIZE);
	w->ctx->fs = w->fs;
	w->ctx->now = IN.now;
	w->ctx->flags = 0;
	w->fs->super = w->sb;
	w->sb->s_rev_level = 1;
	w->sb->s_inode_size = P1_ISIZE;
	w->sb->s_want_extra_isize = IN.want_extra_isize;
	memset(&w->pctx, 0, sizeof(w->pctx));
	w->pctx.ino = IN.ino;
	w->pctx.inode = (struct ext2_inode *) w->rec;
	p1_ghost_reset(mode);
	xs_ea_calls = 0;
	ASSUME(IN.k < P1_ISIZE);
	w->b0 = IN.ino_bytes[IN.k];
}

/* C02 */
void h_xs_detect(void)
{
	struct xs_world w;

	LOAD_IN();
	xs_setup(&w, P1_NO);
	ASSUME(!P1F_EXTRA_ISIZE_FORMAT_OK(P1F_EXTRA_ISIZE(XS_B), P1_ISIZE));

	check_inode_extra_space(w.ctx, &w.pctx, &w.q);
	CHECK(p1_logged(PR_1_EXTRA_ISIZE) && p1_nserious >= 1,
	      "an i_extra_isize outside the format's bounds / alignment raises PR_1_EXTRA_ISIZE, which counts for the exit status");
	CHECK(p1_wr_calls == 0 && w.rec[IN.k] == w.b0, "declined: nothing written, no byte changed");
	CHECK(xs_ea_calls == 0, "the EA region of an inode with a bad i_extra_isize is not interpreted");
	REACH("end");
}

/* C01 */
void h_xs_converge(void)
{
	struct xs_world w;
	unsigned char m1;

	LOAD_IN();
	xs_setup(&w, P1_YES);
	ASSUME(!P1F_EXTRA_ISIZE_FORMAT_OK(P1F_EXTRA_ISIZE(XS_B), P1_ISIZE));
	ASSUME(P1F_EXTRA_ISIZE_FORMAT_OK(IN.want_extra_isize, P1_ISIZE));	/* pass 0, see `assumes` */

	check_inode_extra_space(w.ctx, &w.pctx, &w.q);
	CHECK(p1_logged(PR_1_EXTRA_ISIZE), "raised");
	CHECK(p1_wr_calls >= 1 && p1_wr_ino == IN.ino && p1_wr_size == P1_ISIZE, "accepted: the whole inode record is written");
	CHECK(p1_disk[IN.k] == w.rec[IN.k], "what is on disk is the repaired in-memory record");
	CHECK(P1F_EXTRA_ISIZE_FORMAT_OK(P1F_EXTRA_ISIZE(p1_disk), P1_ISIZE), "i_extra_isize on disk satisfies the format predicate afterwards");

	memcpy(w.rec, p1_disk, P1_ISIZE);
	m1 = w.rec[IN.k];
	p1_clear_log();
	p1_wr_calls = 0;
	p1_mode = P1_CHOICE;
	check_inode_extra_space(w.ctx, &w.pctx, &w.q);
	CHECK(p1_nlog == 0, "second run raises no problem");
	CHECK(p1_wr_calls == 0 && w.rec[IN.k] == m1, "second run writes nothing and changes nothing");
	REACH("end");
}

/* C05 */
void h_xs_sound(void)
{
	struct xs_world w;

	LOAD_IN();
	xs_setup(&w, P1_CHOICE);
	ASSUME(P1F_EXTRA_ISIZE_FORMAT_OK(P1F_EXTRA_ISIZE(XS_B), P1_ISIZE));
	ASSUME(!P1F_ANY_XTIME_AMBIGUOUS(XS_B, P1F_EXTRA_ISIZE(XS_B)));

	check_inode_extra_space(w.ctx, &w.pctx, &w.q);
	if (P1F_EXTRA_ISIZE(XS_B) == 4) REACH("smallest extra_isize");
	if (xs_ea_calls) REACH("in-inode EA present");
	CHECK(p1_nlog == 0, "healthy extra space: no problem raised");
	CHECK(p1_wr_calls == 0, "healthy extra space: inode not written");
	CHECK(w.rec[IN.k] == w.b0, "healthy extra space: no byte of the inode record changes");
	CHECK(xs_ea_calls == (P1F_HAS_IBODY_EA_ROOM(P1F_EXTRA_ISIZE(XS_B), P1_ISIZE) &&
			      P1F_LE32(XS_B, 128 + P1F_EXTRA_ISIZE(XS_B)) == P1F_EA_MAGIC),
	      "the in-inode EAs are examined exactly when the magic is present behind the fixed fields");
	REACH("end");
}

/* grey zone: ambiguous pre-1970 encoding of timestamps that exist */
#define XS_EPOCH_BYTE(k, off) ((k) == (unsigned) (off))	/* the epoch bits live in the low byte of the *_extra word */
void h_xs_epoch(void)
{
	struct xs_world w;
	unsigned extra;
	unsigned char m1;

	LOAD_IN();
	xs_setup(&w, P1_CHOICE);
	extra = P1F_EXTRA_ISIZE(XS_B);
	ASSUME(P1F_EXTRA_ISIZE_FORMAT_OK(extra, P1_ISIZE) && extra >= 24);
	ASSUME(P1F_HAS_IBODY_EA_ROOM(extra, P1_ISIZE));	/* see `assumes` */
	ASSUME(P1F_ANY_XTIME_AMBIGUOUS(XS_B, extra));
	ASSUME(IN.now >= 0 && IN.now < 2 * (1LL << 32));

	check_inode_extra_space(w.ctx, &w.pctx, &w.q);
	CHECK(p1_nlog == 1 && p1_log[0] == PR_1_EA_TIME_OUT_OF_RANGE && p1_nserious == 0,
	      "only the (PR_NO_OK) timestamp question is raised");
	if (IN.choice[0] & 1) {
		REACH("accepted");
		CHECK(p1_wr_calls == 1 && p1_wr_size == P1_ISIZE && p1_disk[IN.k] == w.rec[IN.k], "the repaired record is written");
		CHECK(!P1F_ANY_XTIME_AMBIGUOUS(p1_disk, extra), "no timestamp is ambiguous afterwards");
		CHECK(w.rec[IN.k] == w.b0 ||
		      ((XS_EPOCH_BYTE(IN.k, P1F_OFF_ATIME_EXTRA) || XS_EPOCH_BYTE(IN.k, P1F_OFF_CTIME_EXTRA) ||
			XS_EPOCH_BYTE(IN.k, P1F_OFF_MTIME_EXTRA) || XS_EPOCH_BYTE(IN.k, P1F_OFF_CRTIME_EXTRA)) &&
		       w.rec[IN.k] == (w.b0 & ~P1F_EPOCH_MASK)),
		      "only the two epoch bits of *_extra fields change");
		memcpy(w.rec, p1_disk, P1_ISIZE);
		m1 = w.rec[IN.k];
		p1_clear_log();
		p1_wr_calls = 0;
		check_inode_extra_space(w.ctx, &w.pctx, &w.q);
		CHECK(p1_nlog == 0 && p1_wr_calls == 0 && w.rec[IN.k] == m1, "second run: nothing raised, written or changed");
	} else {
		REACH("declined");
		CHECK(p1_wr_calls == 0 && w.rec[IN.k] == w.b0, "declined: nothing written or changed");
	}
	REACH("end");
}
