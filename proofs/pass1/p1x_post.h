/*
 * p1x_post.h — second half of the EA units' shared set-up (see p1x_pre.h): includes the REAL e2fsck/pass1.c through
 * p1_common.h and defines the stubs of the callees that live in other translation units.
 */
#ifndef P1X_POST_H
#define P1X_POST_H

#include "p1_common.h"

/* the EA problems whose prompt is PROMPT_CLEAR ("clear the EA block reference / the in-inode EA area") */
#define P1X_IS_CLEAR_CODE(code) \
	((code) == PR_1_READ_EA_BLOCK || (code) == PR_1_BAD_EA_BLOCK || (code) == PR_1_EA_MULTI_BLOCK || \
	 (code) == PR_1_EA_ALLOC_COLLISION || (code) == PR_1_EA_BAD_NAME || (code) == PR_1_EA_BAD_VALUE || \
	 (code) == PR_1_ATTR_HASH || (code) == PR_1_ATTR_VALUE_EA_INODE || (code) == PR_1_ATTR_NO_EA_INODE_FL || \
	 (code) == PR_1_INODE_EA_ALLOC_COLLISION || (code) == PR_1_ATTR_NAME_LEN || (code) == PR_1_ATTR_VALUE_SIZE)

/* problem.c: fix_problem — logging stub (cf. p1_common.h) that also keeps the flags of the loop invariants */
int fix_problem(e2fsck_t ctx, problem_t code, struct problem_context *pctx)
{
	int ans;

	(void) ctx; (void) pctx;
	if (p1_nlog < P1_LOGMAX)
		p1_log[p1_nlog] = code;
	if (p1_nlog < 0xffffffffu)
		p1_nlog++;
	p1x_it_any = 1;
	p1x_any_ever = 1;
	if (!p1_code_no_ok(code)) {
		if (p1_nserious < 0xffffffffu)
			p1_nserious++;
		p1x_it_raised = 1;
		p1x_serious_ever = 1;
	}
	if (p1_mode == P1_YES)
		ans = 1;
	else if (p1_mode == P1_NO)
		ans = 0;
	else
		ans = IN.choice[p1_nchoice++ & 7u] & 1;
	if (ans && P1X_IS_CLEAR_CODE(code))
		p1x_accepted = 1;
	return ans;
}

static void p1x_ghost_reset(int mode)
{
	p1_ghost_reset(mode);
	memset(&p1x_g, 0, sizeof(p1x_g));
	p1x_rg_min = p1x_rg_max = 0;
	p1x_rg_live = p1x_rg_frees = p1x_rg_creates = 0;
	p1x_mbu_calls = p1x_inc_calls = p1x_inc_same = 0;
	p1x_mbu_blk = p1x_inc_first_off = p1x_inc_end_off = 0;
	p1x_eawr_calls = p1x_eard_calls = 0;
}

/* ---- e2fsck/region.c ---- */
region_t region_create(region_addr_t min, region_addr_t max)
{
	p1x_rg_creates++;
	if (IN.region_fail & 1)
		return 0;
	p1x_rg_min = min;
	p1x_rg_max = max;
	p1x_rg_b = 0;
	p1x_rg_live = 1;
	return P1X_REGION;
}

void region_free(region_t region)
{
	CHECK(region == P1X_REGION && p1x_rg_live == 1, "region_free: the live region, once (no double free)");
	p1x_rg_live = 0;
	p1x_rg_frees++;
}

/* ---- lib/ext2fs/ext_attr.c: the entry hashes (proved against the kernel's definition by parsers/xattr_hash_entry*).
 * Monitor (C06): the name [entry+16, +e_name_len) and, for a non-empty local value, the padded value
 * [data, data + round4(e_value_size)) that the real functions read lie inside the buffer the caller owns. ---- */
#ifndef P1X_HASH_BUF
#define P1X_HASH_BUF	p1x_buf
#define P1X_HASH_BUFSZ	P1X_BUFSZ
#endif
static void p1x_hash_monitor(struct ext2_ext_attr_entry *entry, void *data)
{
	unsigned long long eo = __CPROVER_POINTER_OFFSET((char *) entry);

	p1x_hash_calls++;
	CHECK(__CPROVER_same_object((char *) entry, (char *) P1X_HASH_BUF) &&
	      eo + sizeof(struct ext2_ext_attr_entry) + entry->e_name_len <= P1X_HASH_BUFSZ,
	      "hash: entry header and name lie inside the caller's buffer");
	if (entry->e_value_inum == 0 && entry->e_value_size != 0) {
		unsigned long long vo = __CPROVER_POINTER_OFFSET((char *) data);

		CHECK(data != 0 && __CPROVER_same_object((char *) data, (char *) P1X_HASH_BUF) &&
		      vo + (((unsigned long long) entry->e_value_size + 3u) & ~3ull) <= P1X_HASH_BUFSZ,
		      "hash: the padded value lies inside the caller's buffer");
	}
}
__u32 ext2fs_ext_attr_hash_entry(struct ext2_ext_attr_entry *entry, void *data)
{
	p1x_hash_monitor(entry, data);
	return P1X_HU((unsigned long long) __CPROVER_POINTER_OFFSET((char *) entry));
}
__u32 ext2fs_ext_attr_hash_entry_signed(struct ext2_ext_attr_entry *entry, void *data)
{
	p1x_hash_monitor(entry, data);
	return P1X_HS((unsigned long long) __CPROVER_POINTER_OFFSET((char *) entry));
}
/* the EA-inode variant as check_large_ea_inode uses it (data == NULL): name hash folded with the hash stored in the EA
 * inode; fails when that inode cannot be read */
errcode_t ext2fs_ext_attr_hash_entry3(ext2_filsys fs, struct ext2_ext_attr_entry *entry, void *data, __u32 *hash,
				      __u32 *signed_hash)
{
	unsigned long long eo = __CPROVER_POINTER_OFFSET((char *) entry);

	(void) fs;
	p1x_h3_calls++;
	CHECK(data == 0 && entry->e_value_inum != 0, "hash_entry3: EA-inode entry, no local data");
	CHECK(__CPROVER_same_object((char *) entry, (char *) P1X_HASH_BUF) &&
	      eo + sizeof(struct ext2_ext_attr_entry) + entry->e_name_len <= P1X_HASH_BUFSZ,
	      "hash3: entry header and name lie inside the caller's buffer");
	if (P1X_H3ERR(eo))
		return EXT2_ET_NO_MEMORY;
	*hash = P1X_H3U(eo);
	if (signed_hash)
		*signed_hash = P1X_H3S(eo);
	return 0;
}

/* ---- util.c ---- */
void e2fsck_read_inode(e2fsck_t ctx, unsigned long ino, struct ext2_inode *inode, const char *proc)
{
	(void) ctx; (void) proc;
	p1x_rdino_calls++;
	memset(inode, 0, sizeof(*inode));
	inode->i_flags = P1X_TFLAGS((unsigned int) ino);
	inode->i_mtime = P1X_TMTIME((unsigned int) ino);
	inode->i_generation = P1X_TGEN((unsigned int) ino);
}
errcode_t ext2fs_write_inode(ext2_filsys fs, ext2_ino_t ino, struct ext2_inode *inode)
{
	(void) fs;
	p1x_wrino_calls++;
	p1x_wrino_ino = ino;
	p1x_wrino_flags = inode->i_flags;
	return 0;
}
void fatal_error(e2fsck_t ctx, const char *msg)
{
	(void) ctx; (void) msg;
	/* prints and exits with FSCK_ERROR: a documented status; nothing behind it */
	ASSUME(0);
}
void p1x_com_err(void) { }

#endif
