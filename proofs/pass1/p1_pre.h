/*
 * p1_pre.h + p1_common.h — shared set-up of the pass-1 decision-helper units (C02 detection, C05 soundness, C01
 * convergence).
 *
 * A unit does
 *     struct in_xxx { ...; unsigned char mode; unsigned char choice[P1_NCHOICE]; } IN;   (its own input struct)
 *     #include "p1_pre.h"
 *     <contracts of replaced callees on forward declarations, named-anchor invariants>
 *     #include "p1_common.h"
 * p1_common.h pulls in the REAL e2fsck/pass1.c (4500 lines; the helpers are `static` there and reachable only
 * because the unit is the same translation unit), the stubs and the ghost problem log.
 *
 * No contract is ever ENFORCED on a function of pass1.c (the frame instrumentation of a TU of that size does not
 * finish); the statements are harness CHECKs around a call of the real function, callees in other TUs are stubs with
 * ghost monitors, callees in pass1.c that a unit abstracts are `replace`d by a contract.
 *
 * fix_problem (problem.c) is a STUB: it appends the code to the ghost log p1_log[] / p1_nlog, counts the codes whose
 * problem-table row lacks PR_NO_OK (p1_nserious: the ones that un-mark the filesystem valid when declined, i.e. that
 * count for the exit status — fsck/fix_problem_verdict proves that of the real fix_problem, specs/fsck_pr_no_ok.h
 * pins the rows) and answers according to p1_mode: always yes, always no, or the next bit of IN.choice[].
 *
 * e2fsck_write_inode / e2fsck_write_inode_full (util.c) are STUBS that snapshot the inode buffer into the ghost
 * "disk" copy p1_disk[] and count the calls: an accepted repair only converges if it reaches the disk.
 */
#ifndef P1_PRE_H
#define P1_PRE_H

#include "verif.h"
#include "pass1_format.h"

#ifndef P1_LOGMAX
#define P1_LOGMAX 8u
#endif
#ifndef P1_NCHOICE
#define P1_NCHOICE 8u
#endif
/* the scratch inode buffer of e2fsck_pass1 is max(s_inode_size, sizeof(struct ext2_inode_large)) bytes; units fix
 * its size by this macro (default: 256-byte inodes) */
#ifndef P1_ISIZE
#define P1_ISIZE 256u
#endif

#define _GNU_SOURCE 1
#include "config.h"
#include <string.h>
#include <stdio.h>
#include "e2fsck.h"
struct problem_context;			/* problem.h has no include guard: pass1.c includes it itself */

#define P1_NO 0
#define P1_YES 1
#define P1_CHOICE 2

extern unsigned int p1_log[P1_LOGMAX];	/* problem codes raised, in order */
extern unsigned int p1_nlog;		/* how many (only the first P1_LOGMAX are kept) */
extern unsigned int p1_nserious;	/* how many of them lack PR_NO_OK */
extern unsigned int p1_nchoice;
extern int p1_mode;
extern unsigned int p1_wr_calls;	/* e2fsck_write_inode* calls */
extern unsigned int p1_wr_ino, p1_wr_size;
extern unsigned char p1_disk[P1_ISIZE];	/* what the last write put on disk */

#endif
