/* VERIF-UNIT
{
 "name": "p1_mark_table_blocks",
 "props": ["C02"],
 "level": "U",
 "tier": "quick",
 "tier_after_hooks": "quick",
 "harness": "h_mtb",
 "loop_contracts": true,
 "includes": ["e2fsck", "lib/support"],
 "unwind": 6,
 "unwindset": {"__CPROVER_contracts_write_set_check_assigns_clause_inclusion.0": 14},
 "unwind_reason": "both loops of mark_table_blocks (groups; inode-table blocks of a group) are closed by loop contracts given through the named anchors VERIF_INV_PASS1_MTB_GROUPS / VERIF_INV_PASS1_MTB_ITABLE (hooks-pending/p1h.diff), with decreases clauses; the bounds serve the DFCC library loops",
 "functions": ["e2fsck/pass1.c:mark_table_blocks"],
 "assumes": ["NEEDS the hooks in hooks-pending/p1h.diff",
	     "statement via ONE arbitrary block k and ONE arbitrary group g (sound for 'every fixed-metadata block of every group'); any number of groups, any inode-table length",
	     "the two pass-1 block bitmaps are abstract sets: ext2fs_test/mark_generic_bmap are stubs over the ghost membership cells of block k; queries about other blocks get arbitrary answers (any sequence); both maps are empty at the call (e2fsck_pass1 allocates them just before and mark_table_blocks is the first writer)",
	     "the group-descriptor accessors ext2fs_block_bitmap_loc / ext2fs_inode_bitmap_loc / ext2fs_inode_table_loc are stubs answering ARBITRARY locations (the harness-chosen ones for group g, an arbitrary but fixed function of the group number elsewhere); ext2fs_reserve_super_and_bgd (alloc_sb.c; C07/C20 units) is a stub that marks k in the map it is given iff k is a superblock / descriptor / reserved-GDT block of that group (an arbitrary but fixed predicate of the group; for group g the harness-chosen answer)",
	     "fix_problem declines (the answer only decides whether the per-group invalid_*_flag counters are incremented, which a pointwise loop invariant cannot bound against int overflow)",
	     "no contract enforced (4500-line TU): the loop invariants are proved inductive, the statement is a harness CHECK after the real function returns"],
 "native": false
}
*/
/*
 * e2fsck/pass1.c:mark_table_blocks — "marks all blocks which are used by the superblock, group descriptors, inode
 * bitmaps, and block bitmaps" [and inode tables].
 *
 * Statement (C02: "every referenced block is ... outside fixed metadata"; the mechanism: the fixed metadata is put into
 * block_found_map first, so that any later claim by an inode is a second claim -> block_dup_map -> pass 1B; and into
 * block_metadata_map, which process_block / scan_extent_node consult before they let a "fix" write into a block):
 *   for every group g < group count and every block k that is, by the group's descriptor (ext4 "Layout",
 *   group_descr.rst), its block bitmap, its inode bitmap, a block of its inode table (inode_blocks_per_group blocks
 *   from bg_inode_table), or one of its superblock/descriptor copies:  k is in block_found_map AND in
 *   block_metadata_map when mark_table_blocks returns;  and the two maps agree on every block.
 */
struct in_mtb {
	unsigned long long k;		/* the arbitrary block */
	unsigned int g;			/* the arbitrary group */
	unsigned int groups, itb;	/* group count, inode_blocks_per_group */
	unsigned long long bb_g, ib_g, it_g;	/* what group g's descriptor says */
	unsigned char k_sbgd_g;		/* k is a superblock / descriptor / reserved GDT block of group g */
	unsigned char mode;
	unsigned char choice[8];
};
struct in_mtb IN;
#include "verif_in.h"
#define P1_OWN_FIX_PROBLEM
#include "p1_pre.h"

/* ghost registers (written by stubs inside the cut loops: all listed in the loops' assigns clauses) */
unsigned char mtb_found_k, mtb_meta_k;	/* membership of k in block_found_map / block_metadata_map */
unsigned char mtb_stray;
unsigned int mtb_ncalls, mtb_nprob;
unsigned long long mtb_cur_it;		/* inode-table location of the group being processed */

#define MTB_IS_TABLE_K_G \
	((IN.k_sbgd_g & 1) || P1F_IS_GROUP_TABLE_BLOCK(IN.k, IN.bb_g, IN.ib_g, IN.it_g, IN.itb))

#define VERIF_INV_PASS1_MTB_GROUPS \
	__CPROVER_assigns(i, j, b, pctx.group, pctx.blk, mtb_found_k, mtb_meta_k, mtb_ncalls, mtb_nprob, mtb_cur_it, mtb_stray) \
	__CPROVER_loop_invariant(i <= fs->group_desc_count) \
	__CPROVER_loop_invariant(mtb_found_k <= 1 && mtb_found_k == mtb_meta_k) \
	__CPROVER_loop_invariant(!(IN.g < i && MTB_IS_TABLE_K_G) || mtb_found_k == 1) \
	__CPROVER_loop_invariant(mtb_stray == 0) \
	__CPROVER_decreases(fs->group_desc_count - i)

#define VERIF_INV_PASS1_MTB_ITABLE \
	__CPROVER_assigns(j, b, pctx.blk, mtb_found_k, mtb_meta_k, mtb_ncalls, mtb_nprob, mtb_stray) \
	__CPROVER_loop_invariant(j <= fs->inode_blocks_per_group && b == mtb_cur_it + j) \
	__CPROVER_loop_invariant(mtb_found_k <= 1 && mtb_found_k == mtb_meta_k) \
	__CPROVER_loop_invariant(mtb_found_k >= __CPROVER_loop_entry(mtb_found_k)) \
	__CPROVER_loop_invariant(!(IN.k >= mtb_cur_it && IN.k - mtb_cur_it < j) || mtb_found_k == 1) \
	__CPROVER_loop_invariant(mtb_stray == 0) \
	__CPROVER_decreases(fs->inode_blocks_per_group - j)

#include "p1_common.h"

static char mtb_found_tag, mtb_meta_tag;

/* arbitrary but fixed facts about the groups other than g */
unsigned long long __CPROVER_uninterpreted_mtb_bb(unsigned int);
unsigned long long __CPROVER_uninterpreted_mtb_ib(unsigned int);
unsigned long long __CPROVER_uninterpreted_mtb_it(unsigned int);
unsigned char __CPROVER_uninterpreted_mtb_sbgd(unsigned int);
unsigned char __CPROVER_uninterpreted_mtb_other(unsigned long long, unsigned int);

int fix_problem(e2fsck_t ctx, problem_t code, struct problem_context *pctx)
{
	(void) ctx; (void) code; (void) pctx;
	mtb_nprob++;
	return 0;
}

blk64_t ext2fs_block_bitmap_loc(ext2_filsys fs, dgrp_t group)
{
	(void) fs;
	return group == IN.g ? IN.bb_g : __CPROVER_uninterpreted_mtb_bb(group);
}
blk64_t ext2fs_inode_bitmap_loc(ext2_filsys fs, dgrp_t group)
{
	(void) fs;
	return group == IN.g ? IN.ib_g : __CPROVER_uninterpreted_mtb_ib(group);
}
blk64_t ext2fs_inode_table_loc(ext2_filsys fs, dgrp_t group)
{
	(void) fs;
	mtb_cur_it = group == IN.g ? IN.it_g : __CPROVER_uninterpreted_mtb_it(group);
	return mtb_cur_it;
}
static void mtb_mark(const void *h)
{
	if (h == (const void *) &mtb_found_tag) mtb_found_k = 1;
	else if (h == (const void *) &mtb_meta_tag) mtb_meta_k = 1;
	else mtb_stray = 1;
}
int ext2fs_reserve_super_and_bgd(ext2_filsys fs, dgrp_t group, ext2fs_block_bitmap bmap)
{
	(void) fs;
	if (group == IN.g ? (IN.k_sbgd_g & 1) : (__CPROVER_uninterpreted_mtb_sbgd(group) & 1))
		mtb_mark(bmap);
	return 0;
}
int ext2fs_test_generic_bmap(ext2fs_generic_bitmap bitmap, __u64 arg)
{
	mtb_ncalls++;
	if (arg != IN.k)
		return __CPROVER_uninterpreted_mtb_other(arg, mtb_ncalls) & 1;
	if ((void *) bitmap == (void *) &mtb_found_tag) return mtb_found_k;
	if ((void *) bitmap == (void *) &mtb_meta_tag) return mtb_meta_k;
	mtb_stray = 1;
	return 0;
}
int ext2fs_mark_generic_bmap(ext2fs_generic_bitmap bitmap, __u64 arg)
{
	if ((void *) bitmap != (void *) &mtb_found_tag && (void *) bitmap != (void *) &mtb_meta_tag)
		mtb_stray = 1;
	if (arg == IN.k)
		mtb_mark(bitmap);
	return 0;
}

void h_mtb(void)
{
	e2fsck_t ctx = malloc(sizeof(*ctx));
	ext2_filsys fs = malloc(sizeof(*fs));
	struct ext2_super_block *sb = malloc(sizeof(*sb));

	LOAD_IN();
	ASSUME(ctx && fs && sb);
	memset(sb, 0, sizeof(*sb));
	ctx->fs = fs;
	fs->super = sb;
	fs->group_desc_count = IN.groups;
	fs->inode_blocks_per_group = IN.itb;
	ctx->block_found_map = (ext2fs_block_bitmap) &mtb_found_tag;
	ctx->block_metadata_map = (ext2fs_block_bitmap) &mtb_meta_tag;
	/* per-group counters (e2fsck_pass1 / check_super_block allocate group_desc_count ints): read here, written only
	 * when a question is accepted */
	ctx->invalid_inode_table_flag = malloc((size_t) IN.groups * sizeof(int));
	ctx->invalid_block_bitmap_flag = 0;
	ctx->invalid_inode_bitmap_flag = 0;
	ASSUME(ctx->invalid_inode_table_flag);
	ctx->invalid_bitmaps = 0;
	mtb_found_k = mtb_meta_k = 0;		/* freshly allocated maps */
	mtb_stray = 0;
	mtb_ncalls = mtb_nprob = 0;
	mtb_cur_it = 0;
	/* an inode table does not wrap the 64-bit block space (ext2fs_check_desc: location + length <= blocks count) */
	ASSUME(IN.it_g <= 0xffffffffffffffffULL - IN.itb);

	mark_table_blocks(ctx);

	CHECK(!mtb_stray, "only block_found_map and block_metadata_map are written");
	CHECK(mtb_found_k == mtb_meta_k, "the two maps agree on every block");
	if (IN.g < IN.groups && MTB_IS_TABLE_K_G) {
		REACH("k is fixed metadata of group g");
		CHECK(mtb_found_k == 1 && mtb_meta_k == 1,
		      "every superblock/descriptor copy, bitmap block and inode-table block of every group is in block_found_map and in block_metadata_map");
	}
	if (IN.g < IN.groups && P1F_IN_INODE_TABLE(IN.k, IN.it_g, IN.itb) && IN.k == IN.it_g + IN.itb - 1) REACH("last block of an inode table");
	REACH("end");
}
