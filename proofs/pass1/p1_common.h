/*
 * p1_common.h — second half of the shared set-up (see p1_pre.h): includes the REAL e2fsck/pass1.c and defines the
 * stubs every pass-1 unit needs.
 */
#ifndef P1_COMMON_H
#define P1_COMMON_H

/* named loop anchors of pass1.c (hooks-pending/p1h.diff) that a unit may define before including this header; the
 * repository file carries the same empty defaults in its guarded preamble */

/* debug / fragcheck printing only; the variadic libc model cannot pass DFCC's write set (see fsck/fp_common.h) */
#define printf(...) ((void) 0)
#include "e2fsck/pass1.c"
#undef printf

/* ---- ghost state ---- */
unsigned int p1_log[P1_LOGMAX];
unsigned int p1_nlog, p1_nserious, p1_nchoice;
int p1_mode;
unsigned int p1_wr_calls, p1_wr_ino, p1_wr_size;
unsigned char p1_disk[P1_ISIZE];

/* Pin of e2fsck/problem.c's table (specs/fsck_pr_no_ok.h, checked against the real table by fsck/pr_no_ok_pin): the
 * pass-1 codes carrying PR_NO_OK.  Every other code un-marks the filesystem valid when declined. */
static int p1_code_no_ok(problem_t code)
{
	return code == 0x010011 /* PR_1_TOO_MANY_BAD_BLOCKS */ || code == 0x01002d /* PR_1_SUPPRESS_MESSAGES */ ||
	       code == 0x010030 /* PR_1_SET_IMMUTABLE */ || code == 0x010033 /* PR_1_FS_REV_LEVEL */ ||
	       code == 0x010076 /* PR_1_SPECIAL_EXTENTS_IDATA */ || code == 0x01007f /* PR_1_EXTENT_BAD_MAX_DEPTH */ ||
	       code == 0x010082 /* PR_1_EA_TIME_OUT_OF_RANGE */ || code == 0x013006 || code == 0x014006 || code == 0x014007;
}

#ifndef P1_OWN_FIX_PROBLEM
int fix_problem(e2fsck_t ctx, problem_t code, struct problem_context *pctx)
{
	(void) ctx; (void) pctx;
	if (p1_nlog < P1_LOGMAX)
		p1_log[p1_nlog] = code;
	p1_nlog++;
	if (!p1_code_no_ok(code))
		p1_nserious++;
	if (p1_mode == P1_YES)
		return 1;
	if (p1_mode == P1_NO)
		return 0;
	if (p1_nchoice < P1_NCHOICE)
		return IN.choice[p1_nchoice++] & 1;
	return 0;
}
#endif

/* was `code` raised among the first 8 problems? (spelled out: no loop to unwind) */
#define P1_LOGGED_AT(i, code) ((i) < P1_LOGMAX && (i) < p1_nlog && p1_log[(i) < P1_LOGMAX ? (i) : 0] == (code))
static int p1_logged(problem_t code)
{
	return P1_LOGGED_AT(0, code) || P1_LOGGED_AT(1, code) || P1_LOGGED_AT(2, code) || P1_LOGGED_AT(3, code) ||
	       P1_LOGGED_AT(4, code) || P1_LOGGED_AT(5, code) || P1_LOGGED_AT(6, code) || P1_LOGGED_AT(7, code);
}

static void p1_ghost_reset(int mode)
{
	memset(p1_log, 0, sizeof(p1_log));
	p1_nlog = p1_nserious = p1_nchoice = 0;
	p1_mode = mode;
	p1_wr_calls = p1_wr_ino = p1_wr_size = 0;
}

/* forget what was logged so far (between the two runs of a convergence harness) */
static void p1_clear_log(void)
{
	p1_nlog = p1_nserious = 0;
}

#ifndef P1_OWN_WRITE_INODE
/* util.c: e2fsck_write_inode writes the first 128 bytes, e2fsck_write_inode_full `bufsize` bytes of the buffer.  The
 * scratch buffer of the harness is exactly P1_ISIZE bytes; the stub snapshots what the real function would write. */
void e2fsck_write_inode(e2fsck_t ctx, unsigned long ino, struct ext2_inode *inode, const char *proc)
{
	(void) ctx; (void) proc;
	p1_wr_calls++;
	p1_wr_ino = ino;
	p1_wr_size = 128;
	memcpy(p1_disk, inode, 128);
}

void e2fsck_write_inode_full(e2fsck_t ctx, unsigned long ino, struct ext2_inode *inode, int bufsize, const char *proc)
{
	(void) ctx; (void) proc;
	p1_wr_calls++;
	p1_wr_ino = ino;
	p1_wr_size = bufsize;
	if (bufsize == (int) P1_ISIZE)
		memcpy(p1_disk, inode, P1_ISIZE);
	else
		memcpy(p1_disk, inode, 128);	/* harnesses CHECK p1_wr_size */
}
#endif

#ifndef P1_OWN_CLEAR_PCTX
void clear_problem_context(struct problem_context *pctx)
{
	memset(pctx, 0, sizeof(*pctx));
	pctx->blkcount = -1;
	pctx->group = -1;
}
#endif

char *gettext(const char *msgid) { return (char *) msgid; }

#endif
