/* VERIF-UNIT
{
 "name": "p1_device_inode_detect",
 "props": ["C02"],
 "level": "U/k",
 "tier": "quick",
 "harness": "h_dev_detect",
 "includes": ["e2fsck", "lib/support"],
 "unwind": 13,
 "unwind_reason": "e2fsck_pass1_check_device_inode scans i_block[4..14]: 11 iterations (EXT2_N_BLOCKS = 15, a constant of the format)",
 "functions": ["e2fsck/pass1.c:e2fsck_pass1_check_device_inode"],
 "assumes": ["arbitrary 128-byte inode; the statement is the verdict of the checker (0 = not a valid device/FIFO/socket inode): that e2fsck_pass1 answers verdict 0 with mark_inode_bad and pass 2 (process_bad_inode) then raises PR_2_BAD_CHAR_DEV/BLOCK_DEV/FIFO/SOCKET is the callers' logic, not part of this unit",
	     "no contract enforced (pass1.c is a 4500-line TU): CHECKs in the harness"],
 "native": false
}
*/
/* VERIF-UNIT
{
 "name": "p1_special_sound",
 "props": ["C05"],
 "level": "U/k",
 "tier": "quick",
 "harness": "h_special_sound",
 "includes": ["e2fsck", "lib/support"],
 "sources": ["lib/ext2fs/blknum.c"],
 "unwind": 13,
 "unwind_reason": "i_block[4..14] scan of e2fsck_pass1_check_device_inode: 11 iterations; everything else loop-free",
 "functions": ["e2fsck/pass1.c:e2fsck_pass1_check_device_inode", "e2fsck/pass1.c:check_extents_inlinedata", "e2fsck/pass1.c:check_immutable", "e2fsck/pass1.c:check_size"],
 "assumes": ["arbitrary 128-byte inode satisfying P1F_SPECIAL_HEALTHY (specs/pass1_format.h); the four helpers are called in the order of e2fsck_pass1's switch on i_mode (pass1.c, the LINUX_S_ISCHR/BLK/FIFO/SOCK arms)",
	     "fix_problem answers are arbitrary (IN.choice); e2fsck_write_inode is a recording stub"],
 "native": false
}
*/
/* VERIF-UNIT
{
 "name": "p1_check_size_detect_converge",
 "props": ["C02", "C01"],
 "level": "U",
 "tier": "quick",
 "harness": "h_size",
 "includes": ["e2fsck", "lib/support"],
 "sources": ["lib/ext2fs/blknum.c"],
 "unwind": 3,
 "unwind_reason": "check_size and ext2fs_inode_size_set are loop-free",
 "functions": ["e2fsck/pass1.c:check_size", "lib/ext2fs/blknum.c:ext2fs_inode_size_set"],
 "assumes": ["arbitrary 128-byte inode of a special-file mode (the call sites are the CHR/BLK/FIFO/SOCK arms) with i_size or i_size_high non-zero",
	     "first run: fix_problem answers arbitrary; second run (only after an accepted fix) operates on the inode as written by the e2fsck_write_inode stub"],
 "native": false
}
*/
/* VERIF-UNIT
{
 "name": "p1_check_immutable_detect_converge",
 "props": ["C02", "C01"],
 "level": "U",
 "tier": "quick",
 "harness": "h_immutable",
 "includes": ["e2fsck", "lib/support"],
 "unwind": 3,
 "unwind_reason": "check_immutable and check_extents_inlinedata are loop-free",
 "functions": ["e2fsck/pass1.c:check_immutable", "e2fsck/pass1.c:check_extents_inlinedata"],
 "assumes": ["arbitrary 128-byte inode; IMMUTABLE/APPEND on a device/symlink and INLINE_DATA/EXTENTS on a special file are the documented grey zone: the problems raised (PR_1_SET_IMMUTABLE, PR_1_SPECIAL_EXTENTS_IDATA) carry PR_NO_OK, so the C02 part of the statement is only 'a question is asked', the C01 part is the convergence after an accepted fix"],
 "native": false
}
*/
/* VERIF-UNIT
{
 "name": "p1_symlink_fast_detect",
 "props": ["C02"],
 "level": "U/k",
 "tier": "quick",
 "harness": "h_sl_fast_detect",
 "includes": ["e2fsck", "lib/support"],
 "sources": ["lib/ext2fs/symlink.c", "lib/ext2fs/blknum.c"],
 "unwind": 16,
 "unwind_reason": "loop-free on this path (the i_block[1..14] scan, 14 iterations, belongs to the slow path)",
 "functions": ["e2fsck/pass1.c:e2fsck_pass1_check_symlink", "lib/ext2fs/symlink.c:ext2fs_is_fast_symlink"],
 "assumes": ["arbitrary 128-byte symlink inode without INLINE_DATA whose size makes it a fast symlink by the format's rule (0 < i_size < 60, i_size_high == 0) or whose size is degenerate (0 / i_size_high != 0)",
	     "strnlen (libc) is a specification stub: result r <= maxlen, s[r] == 0 unless r == maxlen, and s[j] != 0 for the ONE ghost/witness index j < r (pointwise form of 'no NUL below r')",
	     "verdict 0 -> mark_inode_bad -> pass 2 PR_2_INVALID_SYMLINK is the callers' logic"],
 "native": false
}
*/
/* VERIF-UNIT
{
 "name": "p1_symlink_fast_sound",
 "props": ["C05"],
 "level": "U/k",
 "tier": "quick",
 "harness": "h_sl_fast_sound",
 "includes": ["e2fsck", "lib/support"],
 "sources": ["lib/ext2fs/symlink.c", "lib/ext2fs/blknum.c"],
 "unwind": 16,
 "unwind_reason": "loop-free on this path",
 "functions": ["e2fsck/pass1.c:e2fsck_pass1_check_symlink", "lib/ext2fs/symlink.c:ext2fs_is_fast_symlink"],
 "assumes": ["same strnlen specification stub as p1_symlink_fast_detect; for the healthy direction the text is NUL-free at EVERY index below i_size, stated by choosing the stub's claimed length first and requiring the text to be NUL-free at it (a shorter claimed length needs a NUL there)"],
 "native": false
}
*/
/* VERIF-UNIT
{
 "name": "p1_symlink_slow_detect",
 "props": ["C02"],
 "level": "U/k",
 "tier": "quick",
 "harness": "h_sl_slow_detect",
 "includes": ["e2fsck", "lib/support"],
 "sources": ["lib/ext2fs/symlink.c", "lib/ext2fs/blknum.c"],
 "unwind": 16,
 "unwind_reason": "i_block[1..14] scan: 14 iterations (EXT2_N_BLOCKS = 15)",
 "functions": ["e2fsck/pass1.c:e2fsck_pass1_check_symlink"],
 "assumes": ["block size 1024 (fs->blocksize; the function only compares against it)",
	     "the extent-tree accessors ext2fs_extent_open2/get_info/get/free are stubs delivering an ARBITRARY decoded root (entries, depth, first extent) — the format predicate speaks about that decoded view; io_channel_read_blk64 is a stub delivering an arbitrary 1024-byte block or an error",
	     "strnlen as in p1_symlink_fast_detect"],
 "native": false
}
*/
/* VERIF-UNIT
{
 "name": "p1_symlink_slow_sound",
 "props": ["C05"],
 "level": "U/k",
 "tier": "quick",
 "harness": "h_sl_slow_sound",
 "includes": ["e2fsck", "lib/support"],
 "sources": ["lib/ext2fs/symlink.c", "lib/ext2fs/blknum.c"],
 "unwind": 16,
 "unwind_reason": "i_block[1..14] scan: 14 iterations",
 "functions": ["e2fsck/pass1.c:e2fsck_pass1_check_symlink"],
 "assumes": ["same world as p1_symlink_slow_detect; the block can be read; every extent handle opened is freed exactly once (ghost counter)"],
 "native": false
}
*/
/* VERIF-UNIT
{
 "name": "p1_symlink_inline",
 "props": ["C02", "C05"],
 "level": "U",
 "tier": "quick",
 "harness": "h_sl_inline",
 "includes": ["e2fsck", "lib/support"],
 "sources": ["lib/ext2fs/symlink.c", "lib/ext2fs/blknum.c"],
 "unwind": 3,
 "unwind_reason": "loop-free path",
 "functions": ["e2fsck/pass1.c:e2fsck_pass1_check_symlink"],
 "assumes": ["ext2fs_inline_data_size (inline_data.c) is a stub delivering an arbitrary size or an error: the stored length of the inline data (i_block part + system.data value)"],
 "native": false
}
*/
/*
 * e2fsck/pass1.c — the verdict functions and one-field repair helpers for special files and symbolic links:
 *   e2fsck_pass1_check_device_inode, e2fsck_pass1_check_symlink (public; also used by pass 2's process_bad_inode),
 *   check_extents_inlinedata, check_immutable, check_size (static).
 * Format predicates: specs/pass1_format.h ("special files", "symbolic links").
 */
#define P1_ISIZE 128u
#define P1_BS 1024u

struct in_sp {
	unsigned char ino_bytes[128];	/* the inode, arbitrary */
	unsigned char blk[P1_BS];	/* the data block of a slow symlink, arbitrary */
	unsigned int ino;
	unsigned int k;			/* ghost byte index into the inode ("for every byte") */
	unsigned int j;			/* ghost / witness index into the link text */
	unsigned int slen;		/* strnlen stub: the claimed length */
	unsigned int first_data_block;
	unsigned long long blocks_count;
	/* decoded extent root (slow symlink with EXTENTS) */
	unsigned char open_err, info_err, get_err, io_err, inl_err;
	int num_entries, max_depth;
	unsigned long long e_pblk, e_lblk;
	unsigned int e_len;
	unsigned long long inline_size;
	unsigned char mode;
	unsigned char choice[8];
};
struct in_sp IN;
#include "verif_in.h"
#include "p1_pre.h"

/* strnlen (libc) by its specification, pointwise at the ghost index IN.j */
static size_t p1_strnlen(const char *s, size_t maxlen);
#define strnlen(s, n) p1_strnlen(s, n)
#include "p1_common.h"
#undef strnlen

unsigned int sp_strnlen_calls;
static size_t p1_strnlen(const char *s, size_t maxlen)
{
	size_t r = IN.slen;

	sp_strnlen_calls++;
	ASSUME(r <= maxlen);
	ASSUME(r == maxlen || s[r] == 0);
	ASSUME(!(IN.j < r) || s[IN.j] != 0);
	return r;
}

/* ---- stubs for the slow-symlink path ---- */
static char sp_handle_tag, sp_io_tag;
unsigned int sp_open, sp_free, sp_reads;
unsigned long long sp_read_blk;

errcode_t ext2fs_extent_open2(ext2_filsys fs, ext2_ino_t ino, struct ext2_inode *inode, ext2_extent_handle_t *handle)
{
	(void) fs; (void) ino; (void) inode;
	if (IN.open_err)
		return EXT2_ET_INODE_NOT_EXTENT;
	sp_open++;
	*handle = (ext2_extent_handle_t) &sp_handle_tag;
	return 0;
}
void ext2fs_extent_free(ext2_extent_handle_t handle)
{
	if ((void *) handle == (void *) &sp_handle_tag)
		sp_free++;
}
errcode_t ext2fs_extent_get_info(ext2_extent_handle_t handle, struct ext2_extent_info *info)
{
	(void) handle;
	if (IN.info_err)
		return EXT2_ET_MAGIC_EXTENT_HANDLE;
	memset(info, 0, sizeof(*info));
	info->num_entries = IN.num_entries;
	info->max_depth = IN.max_depth;
	return 0;
}
errcode_t ext2fs_extent_get(ext2_extent_handle_t handle, int flags, struct ext2fs_extent *extent)
{
	(void) handle; (void) flags;
	if (IN.get_err)
		return EXT2_ET_EXTENT_NO_NEXT;
	memset(extent, 0, sizeof(*extent));
	extent->e_pblk = IN.e_pblk;
	extent->e_lblk = IN.e_lblk;
	extent->e_len = IN.e_len;
	return 0;
}
errcode_t io_channel_read_blk64(io_channel channel, unsigned long long block, int count, void *data)
{
	(void) channel;
	sp_reads++;
	sp_read_blk = block;
	if (count != 1 || IN.io_err)
		return EXT2_ET_SHORT_READ;
	memcpy(data, IN.blk, P1_BS);
	return 0;
}
errcode_t ext2fs_inline_data_size(ext2_filsys fs, ext2_ino_t ino, size_t *size)
{
	(void) fs; (void) ino;
	if (IN.inl_err)
		return EXT2_ET_NO_INLINE_DATA;
	*size = IN.inline_size;
	return 0;
}

/* ---- the world ---- */
struct sp_world {
	e2fsck_t ctx;
	ext2_filsys fs;
	struct ext2_super_block *sb;
	struct ext2_inode *inode;
	char *buf;
	struct problem_context pctx;
	unsigned char b0;
};

static void sp_setup(struct sp_world *w, int mode)
{
	w->ctx = malloc(sizeof(*w->ctx));
	w->fs = malloc(sizeof(*w->fs));
	w->sb = malloc(sizeof(*w->sb));
	w->inode = malloc(128);
	w->buf = malloc(3 * P1_BS);		/* "block iterate buffer": fs->blocksize * 3 (e2fsck_pass1) */
	ASSUME(w->ctx && w->fs && w->sb && w->inode && w->buf);
	memset(w->sb, 0, sizeof(*w->sb));
	memcpy(w->inode, IN.ino_bytes, 128);
	w->ctx->fs = w->fs;
	w->fs->super = w->sb;
	w->fs->blocksize = P1_BS;
	w->fs->io = (io_channel) &sp_io_tag;
	w->sb->s_first_data_block = IN.first_data_block;
	w->sb->s_blocks_count = (unsigned int) IN.blocks_count;
	w->sb->s_blocks_count_hi = (unsigned int) (IN.blocks_count >> 32);
	w->sb->s_feature_incompat = EXT4_FEATURE_INCOMPAT_64BIT;
	w->sb->s_rev_level = 1;
	memset(&w->pctx, 0, sizeof(w->pctx));
	w->pctx.ino = IN.ino;
	w->pctx.inode = w->inode;
	p1_ghost_reset(mode);
	sp_open = sp_free = sp_reads = sp_strnlen_calls = 0;
	ASSUME(IN.k < 128);
	w->b0 = IN.ino_bytes[IN.k];
}

#define SP_B ((const unsigned char *) IN.ino_bytes)

/* ================= devices, FIFOs, sockets ================= */

/* C02: EXTENTS or INDEX on a special file */
void h_dev_detect(void)
{
	struct sp_world w;
	int r;

	LOAD_IN();
	sp_setup(&w, P1_NO);
	ASSUME(!P1F_SPECIAL_FLAGS_FORMAT_OK(SP_B));

	r = e2fsck_pass1_check_device_inode(w.fs, w.inode);
	CHECK(r == 0, "a special file carrying EXTENTS or INDEX is not accepted as a valid device/FIFO/socket inode");
	CHECK(((unsigned char *) w.inode)[IN.k] == w.b0, "the verdict function does not modify the inode");
	REACH("end");
}

/* C05: a healthy special file passes all four helpers untouched and unreported */
void h_special_sound(void)
{
	struct sp_world w;
	int r;

	LOAD_IN();
	sp_setup(&w, P1_CHOICE);
	p1_mode = P1_CHOICE;
	ASSUME(P1F_IS_SPECIAL_MODE(P1F_MODE(SP_B)));
	ASSUME(P1F_SPECIAL_HEALTHY(SP_B));

	r = e2fsck_pass1_check_device_inode(w.fs, w.inode);
	CHECK(r == 1, "healthy special file: accepted");
	check_extents_inlinedata(w.ctx, &w.pctx);
	check_immutable(w.ctx, &w.pctx);
	check_size(w.ctx, &w.pctx);
	CHECK(p1_nlog == 0, "healthy special file: no problem raised");
	CHECK(p1_wr_calls == 0, "healthy special file: inode not written");
	CHECK(((unsigned char *) w.inode)[IN.k] == w.b0, "healthy special file: no byte of the inode changes");
	REACH("end");
}

/* C02 + C01: non-zero size of a special file */
void h_size(void)
{
	struct sp_world w;
	unsigned char m1;

	LOAD_IN();
	sp_setup(&w, P1_CHOICE);
	ASSUME(P1F_IS_SPECIAL_MODE(P1F_MODE(SP_B)));
	ASSUME(!P1F_SPECIAL_SIZE_FORMAT_OK(SP_B));

	check_size(w.ctx, &w.pctx);
	CHECK(p1_nlog == 1 && p1_log[0] == PR_1_SET_NONZSIZE && p1_nserious == 1,
	      "a special file with a non-zero size (low or high word) raises PR_1_SET_NONZSIZE, which counts for the exit status");
	if (IN.choice[0] & 1) {
		REACH("fix accepted");
		CHECK(p1_wr_calls == 1 && p1_wr_ino == IN.ino, "the repaired inode is written");
		CHECK(p1_disk[IN.k] == ((unsigned char *) w.inode)[IN.k], "what is on disk is the repaired in-memory inode");
		CHECK(P1F_SPECIAL_SIZE_FORMAT_OK(p1_disk), "the size on disk is 0 afterwards");
		CHECK((IN.k >= P1F_OFF_SIZE_LO && IN.k < P1F_OFF_SIZE_LO + 4) ||
		      (IN.k >= P1F_OFF_SIZE_HIGH && IN.k < P1F_OFF_SIZE_HIGH + 4) || p1_disk[IN.k] == w.b0,
		      "only i_size / i_size_high change");
		/* second run, on what reached the disk */
		memcpy(w.inode, p1_disk, 128);
		m1 = ((unsigned char *) w.inode)[IN.k];
		p1_clear_log();
		p1_wr_calls = 0;
		check_size(w.ctx, &w.pctx);
		CHECK(p1_nlog == 0 && p1_wr_calls == 0, "second run raises nothing and writes nothing");
		CHECK(((unsigned char *) w.inode)[IN.k] == m1, "second run changes nothing");
	} else {
		REACH("fix declined");
		CHECK(p1_wr_calls == 0 && ((unsigned char *) w.inode)[IN.k] == w.b0, "declined: nothing written, nothing changed");
	}
	REACH("end");
}

/* grey zone: IMMUTABLE/APPEND, INLINE_DATA/EXTENTS on a special file */
void h_immutable(void)
{
	struct sp_world w;
	unsigned bad, bad2;
	unsigned char m1;

	LOAD_IN();
	sp_setup(&w, P1_YES);
	bad = P1F_FLAGS(SP_B) & (P1F_FL_IMMUTABLE | P1F_FL_APPEND);
	bad2 = P1F_FLAGS(SP_B) & (P1F_FL_EXTENTS | P1F_FL_INLINE_DATA);
	ASSUME(bad || bad2);

	check_extents_inlinedata(w.ctx, &w.pctx);
	check_immutable(w.ctx, &w.pctx);
	CHECK(p1_logged(PR_1_SET_IMMUTABLE) == (bad != 0), "IMMUTABLE/APPEND: PR_1_SET_IMMUTABLE is asked, and only then");
	CHECK(p1_logged(PR_1_SPECIAL_EXTENTS_IDATA) == (bad2 != 0), "EXTENTS/INLINE_DATA: PR_1_SPECIAL_EXTENTS_IDATA is asked, and only then");
	CHECK(p1_nlog == (bad != 0) + (bad2 != 0), "nothing else is raised");
	CHECK(p1_wr_calls >= 1 && p1_wr_ino == IN.ino, "accepted: the inode is written");
	CHECK(p1_disk[IN.k] == ((unsigned char *) w.inode)[IN.k], "what is on disk is the repaired in-memory inode");
	CHECK(!(P1F_FLAGS(p1_disk) & (P1F_FL_IMMUTABLE | P1F_FL_APPEND | P1F_FL_EXTENTS | P1F_FL_INLINE_DATA)),
	      "the four flags are clear on disk afterwards");
	CHECK((P1F_FLAGS(p1_disk) | P1F_FL_IMMUTABLE | P1F_FL_APPEND | P1F_FL_EXTENTS | P1F_FL_INLINE_DATA) ==
	      (P1F_FLAGS(SP_B) | P1F_FL_IMMUTABLE | P1F_FL_APPEND | P1F_FL_EXTENTS | P1F_FL_INLINE_DATA),
	      "no other flag changes");
	CHECK((IN.k >= P1F_OFF_FLAGS && IN.k < P1F_OFF_FLAGS + 4) || p1_disk[IN.k] == w.b0, "only i_flags changes");

	memcpy(w.inode, p1_disk, 128);
	m1 = ((unsigned char *) w.inode)[IN.k];
	p1_clear_log();
	p1_wr_calls = 0;
	p1_mode = P1_CHOICE;
	check_extents_inlinedata(w.ctx, &w.pctx);
	check_immutable(w.ctx, &w.pctx);
	CHECK(p1_nlog == 0 && p1_wr_calls == 0, "second run raises nothing and writes nothing");
	CHECK(((unsigned char *) w.inode)[IN.k] == m1, "second run changes nothing");
	REACH("end");
}

/* ================= symbolic links ================= */

#define SP_TEXT_FAST (SP_B + P1F_OFF_BLOCK)

/* the format predicate of a fast symlink (text in i_block) */
#define SP_FAST_OK(j) \
	(P1F_SYMLINK_COMMON_OK(SP_B) && !(P1F_FLAGS(SP_B) & P1F_FL_EXTENTS) && \
	 P1F_SYMLINK_TEXT_OK(SP_B, SP_TEXT_FAST, P1F_IBLOCK_BYTES, j))

/* C02 */
void h_sl_fast_detect(void)
{
	struct sp_world w;
	int r;

	LOAD_IN();
	sp_setup(&w, P1_NO);
	ASSUME((P1F_MODE(SP_B) & P1F_IFMT) == P1F_IFLNK);
	ASSUME(!(P1F_FLAGS(SP_B) & P1F_FL_INLINE_DATA));
	/* fast by the format's rule, or degenerate size */
	ASSUME(P1F_SYMLINK_IS_FAST(SP_B) || P1F_SIZE_HIGH(SP_B) != 0 || P1F_SIZE_LO(SP_B) == 0);
	/* IN.j is the witness: a NUL inside the text, if that is what is wrong */
	ASSUME(!SP_FAST_OK(IN.j));

	r = e2fsck_pass1_check_symlink(w.fs, IN.ino, w.inode, w.buf);
	if (P1F_SYMLINK_IS_FAST(SP_B) && !(P1F_FLAGS(SP_B) & (P1F_FL_EXTENTS | P1F_FL_INDEX))) REACH("text examined");
	CHECK(r == 0, "a fast symlink violating the format predicate is not accepted");
	CHECK(sp_reads == 0, "no block is read for a fast symlink");
	CHECK(((unsigned char *) w.inode)[IN.k] == w.b0, "the verdict function does not modify the inode");
	REACH("end");
}

/* C05 */
void h_sl_fast_sound(void)
{
	struct sp_world w;
	int r;

	LOAD_IN();
	sp_setup(&w, P1_NO);
	ASSUME((P1F_MODE(SP_B) & P1F_IFMT) == P1F_IFLNK);
	ASSUME(!(P1F_FLAGS(SP_B) & P1F_FL_INLINE_DATA));
	ASSUME(P1F_SYMLINK_IS_FAST(SP_B));
	/* healthy: NUL-free at every index below i_size — in particular at the length strnlen claims, if that is shorter,
	 * and at the stub's own ghost index */
	ASSUME(SP_FAST_OK(IN.slen));
	/* the stub's "no NUL below the result" is instantiated at index i_size (where the healthy text has its NUL) */
	ASSUME(IN.j == P1F_SIZE_LO(SP_B));

	r = e2fsck_pass1_check_symlink(w.fs, IN.ino, w.inode, w.buf);
	CHECK(r == 1, "a healthy fast symlink is accepted");
	CHECK(sp_reads == 0 && sp_open == 0, "nothing is read for a fast symlink");
	CHECK(((unsigned char *) w.inode)[IN.k] == w.b0, "the inode is not modified");
	REACH("end");
}

/* slow symlink: the one data block */
#define SP_SLOW_MAP_OK() \
	(P1F_IBLOCK(SP_B, 1) == 0 && P1F_IBLOCK(SP_B, 2) == 0 && P1F_IBLOCK(SP_B, 3) == 0 && P1F_IBLOCK(SP_B, 4) == 0 && \
	 P1F_IBLOCK(SP_B, 5) == 0 && P1F_IBLOCK(SP_B, 6) == 0 && P1F_IBLOCK(SP_B, 7) == 0 && P1F_IBLOCK(SP_B, 8) == 0 && \
	 P1F_IBLOCK(SP_B, 9) == 0 && P1F_IBLOCK(SP_B, 10) == 0 && P1F_IBLOCK(SP_B, 11) == 0 && P1F_IBLOCK(SP_B, 12) == 0 && \
	 P1F_IBLOCK(SP_B, 13) == 0 && P1F_IBLOCK(SP_B, 14) == 0 && \
	 P1F_BLOCK_IN_RANGE(P1F_IBLOCK(SP_B, 0), IN.first_data_block, IN.blocks_count))
#define SP_SLOW_EXT_OK() \
	(!IN.open_err && !IN.info_err && !IN.get_err && IN.num_entries == 1 && IN.max_depth == 0 && \
	 IN.e_lblk == 0 && IN.e_len == 1 && P1F_BLOCK_IN_RANGE(IN.e_pblk, IN.first_data_block, IN.blocks_count))
#define SP_SLOW_BLOCK() ((P1F_FLAGS(SP_B) & P1F_FL_EXTENTS) ? IN.e_pblk : (unsigned long long) P1F_IBLOCK(SP_B, 0))
#define SP_SLOW_OK(j) \
	(P1F_SYMLINK_COMMON_OK(SP_B) && \
	 ((P1F_FLAGS(SP_B) & P1F_FL_EXTENTS) ? SP_SLOW_EXT_OK() : SP_SLOW_MAP_OK()) && \
	 !IN.io_err && P1F_SYMLINK_TEXT_OK(SP_B, IN.blk, P1_BS, j))

/* C02 */
void h_sl_slow_detect(void)
{
	struct sp_world w;
	int r;

	LOAD_IN();
	sp_setup(&w, P1_NO);
	ASSUME((P1F_MODE(SP_B) & P1F_IFMT) == P1F_IFLNK);
	ASSUME(!(P1F_FLAGS(SP_B) & P1F_FL_INLINE_DATA));
	ASSUME(P1F_SIZE_HIGH(SP_B) == 0 && P1F_SIZE_LO(SP_B) >= P1F_IBLOCK_BYTES);	/* slow by the format's rule */
	ASSUME(!SP_SLOW_OK(IN.j));

	r = e2fsck_pass1_check_symlink(w.fs, IN.ino, w.inode, w.buf);
	if (sp_reads) REACH("block examined");
	CHECK(r == 0, "a slow symlink violating the format predicate (more/less than one block, block out of range, length != i_size, NUL inside, unreadable) is not accepted");
	CHECK(sp_open == sp_free, "every extent handle opened is freed");
	CHECK(((unsigned char *) w.inode)[IN.k] == w.b0, "the verdict function does not modify the inode");
	REACH("end");
}

/* C05 */
void h_sl_slow_sound(void)
{
	struct sp_world w;
	int r;

	LOAD_IN();
	sp_setup(&w, P1_NO);
	ASSUME((P1F_MODE(SP_B) & P1F_IFMT) == P1F_IFLNK);
	ASSUME(!(P1F_FLAGS(SP_B) & P1F_FL_INLINE_DATA));
	ASSUME(P1F_SIZE_HIGH(SP_B) == 0 && P1F_SIZE_LO(SP_B) >= P1F_IBLOCK_BYTES);
	ASSUME(SP_SLOW_OK(IN.slen));
	ASSUME(IN.j == P1F_SIZE_LO(SP_B));

	r = e2fsck_pass1_check_symlink(w.fs, IN.ino, w.inode, w.buf);
	CHECK(r == 1, "a healthy slow symlink is accepted");
	CHECK(sp_reads == 1 && sp_read_blk == SP_SLOW_BLOCK(), "exactly its one data block is read");
	CHECK(sp_open == sp_free, "every extent handle opened is freed");
	CHECK(((unsigned char *) w.inode)[IN.k] == w.b0, "the inode is not modified");
	if (P1F_FLAGS(SP_B) & P1F_FL_EXTENTS) REACH("extent-mapped"); else REACH("block-mapped");
	REACH("end");
}

/* inline-data symlink: C02 + C05 */
void h_sl_inline(void)
{
	struct sp_world w;
	int r, ok;

	LOAD_IN();
	sp_setup(&w, P1_NO);
	ASSUME((P1F_MODE(SP_B) & P1F_IFMT) == P1F_IFLNK);
	ASSUME(P1F_FLAGS(SP_B) & P1F_FL_INLINE_DATA);
	ok = P1F_SYMLINK_COMMON_OK(SP_B) && !(P1F_FLAGS(SP_B) & P1F_FL_EXTENTS) && !IN.inl_err &&
	     IN.inline_size == P1F_SIZE_LO(SP_B);

	r = e2fsck_pass1_check_symlink(w.fs, IN.ino, w.inode, w.buf);
	if (ok) REACH("healthy"); else REACH("violating");
	CHECK(r == ok, "an inline-data symlink is accepted iff i_size is the stored inline length, non-zero, below 4 GiB, and neither EXTENTS nor INDEX is set");
	CHECK(sp_reads == 0 && sp_open == 0, "no block is read");
	CHECK(((unsigned char *) w.inode)[IN.k] == w.b0, "the inode is not modified");
	REACH("end");
}
