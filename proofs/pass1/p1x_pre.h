/*
 * p1x_pre.h + p1x_post.h — shared set-up of the pass-1 EXTENDED ATTRIBUTE units (ea_block.c, ea_ibody.c, ea_inode.c,
 * ea_refs.c): the part that must come BEFORE the real e2fsck/pass1.c (input struct, ghost registers, contracts of
 * replaced callees on forward declarations, loop invariants / ghost statements of the named anchors).
 *
 * It builds on p1_pre.h / p1_common.h of the pass-1 helper units (ghost problem log, write-inode snapshot, the
 * #include of the real pass1.c), with its own fix_problem stub (P1_OWN_FIX_PROBLEM): besides logging, that one keeps
 * the flags the loop invariants speak about.
 *
 * GHOST REGISTERS (all written only by stubs / ghost statements; every one that is written inside a cut loop is in
 * P1X_GHOSTS, the ghost part of the loops' assigns clauses)
 *   p1x_off          offset of the entry being processed from the container base (set at the top of a loop body)
 *   p1x_it_bad       the entry being processed VIOLATES the format (specs/pass1_ea_format.h), evaluated on the bytes
 *                    the body is about to look at
 *   p1x_it_healthy   the entry being processed is HEALTHY (spec) and the environment hypotheses of the unit hold
 *   p1x_it_raised    a problem WITHOUT PR_NO_OK was raised since the top of the current body
 *   p1x_it_any       any problem was raised since the top of the current body
 *   p1x_any_ever / p1x_serious_ever   sticky versions (since the call)
 *   p1x_accepted     a PROMPT_CLEAR-type EA problem was answered yes (sticky)
 *   region monitor   p1x_rg_* (see the contract of region_allocate below)
 */
#ifndef P1X_PRE_H
#define P1X_PRE_H

#define P1_OWN_FIX_PROBLEM
#include "p1_pre.h"
#include "pass1_ea_format.h"
#include <ext2fs/ext2_ext_attr.h>

/* size of the stand-in EA block (the code reads it only through fs->blocksize) */
#ifndef P1X_BS
#define P1X_BS 128u
#endif
/* e2fsck_pass1 allocates block_buf as 3 * blocksize ("block iterate buffer") */
#define P1X_BUFSZ (3u * P1X_BS)

struct in_p1x {
	unsigned char buf[P1X_BUFSZ];		/* the block buffer: arbitrary bytes */
	unsigned char inode[P1_ISIZE];		/* the scratch inode: arbitrary bytes */
	unsigned char choice[8];		/* answers of fix_problem in P1_CHOICE mode */
	unsigned long long file_acl, blocks_count;
	unsigned int first_data_block, compat, incompat, ro_compat, rev_level, first_ino, inodes_count;
	unsigned int ino, options, ctxflags;
	unsigned char bigalloc, ea_ver, mode;
	unsigned char read_err, write_err, region_fail, noovl;
	unsigned long long B;			/* ghost byte of the region monitor */
	unsigned long long J;			/* ghost byte: "the buffer is unchanged at J" */
	/* check_ext_attr head/tail (ea_refs.c) */
	unsigned char ea_seen, have_ea_map, have_refcount, have_extra, have_qb, have_qi, have_inorefs;
	unsigned char create_fail[4], bmap_fail;
	unsigned long long rc_cell, qb_cell, qi_cell, extra_cell;
	/* EA inode (ea_inode.c) */
	unsigned int t_flags, t_mtime, t_generation, h3u, h3s;
	unsigned char h3err;
	unsigned long long refs_cell;
	unsigned char refs_store_fail;
};
struct in_p1x IN;
#include "verif_in.h"

/* ---- ghost registers ----
 * Everything a stub / ghost statement writes INSIDE a cut loop lives in ONE object (p1x_g): the loops' assigns clauses
 * name it whole (one write-set entry instead of thirty). */
struct p1x_ghost {
	unsigned long long off;
	unsigned int it_bad, it_healthy, it_raised, it_any, any_ever, serious_ever, accepted;
	struct p1x_rg_ghost {		/* what the contract of region_allocate assigns: one target */
		unsigned long long last_start, last_n;
		unsigned int b, oor, dup, calls;
	} rg;
	unsigned int rg_b0;
	unsigned int hash_calls, rdino_calls, wrino_calls, wrino_ino, wrino_flags, h3_calls, sbdirty;
	/* the fields of the entry at the cursor, extracted at the top of the body (specs/pass1_ea_format.h views) */
	unsigned int e_nl, e_idx, e_offs, e_inum, e_size, e_hash, incompat, it_empty, remain0;
	/* EA-inode reference counting (ea_refs.c) */
	unsigned long long refs_cell, refs_stores, refs_fetches;
	unsigned int refs_stray, refs_created;
};
struct p1x_ghost p1x_g;
#define p1x_off		p1x_g.off
#define p1x_it_bad	p1x_g.it_bad
#define p1x_it_healthy	p1x_g.it_healthy
#define p1x_it_raised	p1x_g.it_raised
#define p1x_it_any	p1x_g.it_any
#define p1x_any_ever	p1x_g.any_ever
#define p1x_serious_ever p1x_g.serious_ever
#define p1x_accepted	p1x_g.accepted
#define p1x_rg_b	p1x_g.rg.b		/* byte B has been claimed */
#define p1x_rg_b0	p1x_g.rg_b0		/* ... at the top of the current loop body */
#define p1x_rg_oor	p1x_g.rg.oor		/* sticky: a request outside [min, max) was made */
#define p1x_rg_dup	p1x_g.rg.dup		/* sticky: byte B was requested while already claimed */
#define p1x_rg_calls	p1x_g.rg.calls
#define p1x_rg_last_start p1x_g.rg.last_start
#define p1x_rg_last_n	p1x_g.rg.last_n
#define p1x_hash_calls	p1x_g.hash_calls
#define p1x_rdino_calls	p1x_g.rdino_calls
#define p1x_wrino_calls	p1x_g.wrino_calls
#define p1x_wrino_ino	p1x_g.wrino_ino
#define p1x_wrino_flags	p1x_g.wrino_flags
#define p1x_h3_calls	p1x_g.h3_calls
#define p1x_sbdirty	p1x_g.sbdirty
#define p1x_e_nl	p1x_g.e_nl
#define p1x_e_idx	p1x_g.e_idx
#define p1x_e_offs	p1x_g.e_offs
#define p1x_e_inum	p1x_g.e_inum
#define p1x_e_size	p1x_g.e_size
#define p1x_e_hash	p1x_g.e_hash
#define p1x_incompat	p1x_g.incompat
#define p1x_it_empty	p1x_g.it_empty
/* region monitor: harness constants and registers only written outside the loops */
unsigned long long p1x_rg_min, p1x_rg_max;	/* bounds given to region_create */
unsigned long long p1x_rg_B;			/* the ghost byte (harness constant) */
unsigned int p1x_rg_noovl;			/* harness constant: hypothesis "no request of this walk collides, memory suffices" */
unsigned int p1x_rg_live, p1x_rg_frees, p1x_rg_creates;
static char p1x_region_tag;
#define P1X_REGION ((region_t) (void *) &p1x_region_tag)
/* callee monitors (outside the loops) */
unsigned int p1x_mbu_calls, p1x_inc_calls, p1x_inc_same;
unsigned long long p1x_mbu_blk, p1x_inc_first_off, p1x_inc_end_off;
unsigned int p1x_eawr_calls, p1x_eard_calls;
unsigned int p1x_first_ino, p1x_inodes_count, p1x_ver, p1x_incompat0;
/* the buffer handed to the function under test and the snapshot of the ghost byte J */
unsigned char p1x_buf[P1X_BUFSZ];
unsigned long long p1x_J;
unsigned char p1x_bufJ0;

#define P1X_GHOSTS \
	p1_nlog, p1_nserious, p1_nchoice, __CPROVER_object_whole(p1_log), __CPROVER_object_whole(&p1x_g)

/* "arbitrary but fixed" answers of callees, per entry offset / per inode number */
unsigned int __CPROVER_uninterpreted_p1x_hu(unsigned long long);	/* ext2fs_ext_attr_hash_entry */
unsigned int __CPROVER_uninterpreted_p1x_hs(unsigned long long);	/* ext2fs_ext_attr_hash_entry_signed */
unsigned int __CPROVER_uninterpreted_p1x_h3u(unsigned long long);	/* ext2fs_ext_attr_hash_entry3: *hash */
unsigned int __CPROVER_uninterpreted_p1x_h3s(unsigned long long);	/*                              *signed_hash */
unsigned int __CPROVER_uninterpreted_p1x_h3err(unsigned long long);	/*                              error */
unsigned int __CPROVER_uninterpreted_p1x_tflags(unsigned int);		/* e2fsck_read_inode: i_flags of inode n */
unsigned int __CPROVER_uninterpreted_p1x_tmtime(unsigned int);
unsigned int __CPROVER_uninterpreted_p1x_tgen(unsigned int);
#define P1X_HU(off)	__CPROVER_uninterpreted_p1x_hu(off)
#define P1X_HS(off)	__CPROVER_uninterpreted_p1x_hs(off)
#define P1X_H3U(off)	__CPROVER_uninterpreted_p1x_h3u(off)
#define P1X_H3S(off)	__CPROVER_uninterpreted_p1x_h3s(off)
#define P1X_H3ERR(off)	__CPROVER_uninterpreted_p1x_h3err(off)
#define P1X_TFLAGS(ino)	__CPROVER_uninterpreted_p1x_tflags(ino)
#define P1X_TMTIME(ino)	__CPROVER_uninterpreted_p1x_tmtime(ino)
#define P1X_TGEN(ino)	__CPROVER_uninterpreted_p1x_tgen(ino)

/*
 * e2fsck/region.c: region_allocate — CONTRACT of the replaced callee (written from region.c's documented behaviour:
 * "allocate [start, start+n) in the region; 1 if it conflicts with something already allocated"; the real function
 * answers -1 for a request outside [min, max) or when it cannot get memory, and answers 1 — a COLLISION — for n == 0,
 * so a caller must never ask for zero bytes: REQUIRES(n > 0) is an obligation at every call site).
 * The set of claimed bytes is observed at ONE ghost byte p1x_rg_B:
 *     out of [min, max)                               -> -1, nothing claimed
 *     byte B inside the request and already claimed   -> not 0
 *     answer 0                                        -> byte B is claimed iff it was or lies in the request
 * The converse direction ("not 0 only if some byte collides") needs the whole set; units that need it state it as the
 * hypothesis p1x_rg_noovl (then every in-range request is answered 0) and keep byte B out of the way.
 */
#define P1X_RG_OUT(start, n)	((start) < p1x_rg_min || (start) + (unsigned long long) (n) > p1x_rg_max)
#define P1X_RG_HITS_B(start, n)	(p1x_rg_B >= (start) && p1x_rg_B < (start) + (unsigned long long) (n))
int region_allocate(region_t region, region_addr_t start, int n)
	REQUIRES(n > 0)
	REQUIRES(region == P1X_REGION && p1x_rg_live == 1)
	ASSIGNS(p1x_g.rg)
	ENSURES(RET == 0 || RET == 1 || RET == -1)
	ENSURES(P1X_RG_OUT(start, n) ? RET == -1 : 1)
	ENSURES((OLD(p1x_rg_b) && P1X_RG_HITS_B(start, n)) ? RET != 0 : 1)
	ENSURES((p1x_rg_noovl && !P1X_RG_OUT(start, n)) ? RET == 0 : 1)
	ENSURES(p1x_rg_b == ((OLD(p1x_rg_b) || (RET == 0 && P1X_RG_HITS_B(start, n))) ? 1u : 0u))
	ENSURES(p1x_rg_oor == ((OLD(p1x_rg_oor) || P1X_RG_OUT(start, n)) ? 1u : 0u))
	ENSURES(p1x_rg_dup == ((OLD(p1x_rg_dup) || (OLD(p1x_rg_b) && P1X_RG_HITS_B(start, n))) ? 1u : 0u))
	ENSURES(p1x_rg_calls == OLD(p1x_rg_calls) + 1u && p1x_rg_last_start == start && p1x_rg_last_n == (unsigned long long) n);

/* pass1.c: mark_block_used (proved in marks.c / blocks.c: p1_mark_blocks_used, p1_process_block_legal) — here only
 * counted */
static void mark_block_used(e2fsck_t ctx, blk64_t block)
	ASSIGNS(p1x_mbu_calls, p1x_mbu_blk)
	ENSURES(p1x_mbu_calls == OLD(p1x_mbu_calls) + 1u && p1x_mbu_blk == block);

/* com_err is variadic (DFCC write set): fixed-arity stand-in; it is only reached in front of fatal_error */
void p1x_com_err(void);
#define com_err(...) p1x_com_err()

#endif
