/* VERIF-UNIT
{
 "name": "p1_mark_inode_bad",
 "props": ["C02"],
 "level": "U",
 "tier": "quick",
 "harness": "h_mib",
 "includes": ["e2fsck", "lib/support"],
 "unwind": 3,
 "unwind_reason": "mark_inode_bad is loop-free",
 "functions": ["e2fsck/pass1.c:mark_inode_bad"],
 "assumes": ["inode_bad_map is an abstract set: ext2fs_mark_generic_bmap is a stub over ghost membership cells for the inode passed in and one arbitrary other inode; e2fsck_allocate_inode_bitmap (util.c) hands out the map or fails; fix_problem is the logging stub",
	     "no contract enforced: CHECKs in the harness"],
 "native": false
}
*/
/* VERIF-UNIT
{
 "name": "p1_mark_blocks_used",
 "props": ["C02"],
 "level": "U",
 "tier": "quick",
 "tier_after_hooks": "quick",
 "harness": "h_mbu",
 "loop_contracts": true,
 "replace": ["mark_block_used"],
 "includes": ["e2fsck", "lib/support"],
 "unwind": 6,
 "unwindset": {"__CPROVER_contracts_write_set_check_assigns_clause_inclusion.0": 8},
 "unwind_reason": "the per-cluster loop of mark_blocks_used is closed by a loop contract given through the named anchor VERIF_INV_PASS1_MARK_BLOCKS_USED (hooks-pending/p1h.diff) with a decreases clause; the bounds serve the DFCC library loops",
 "functions": ["e2fsck/pass1.c:mark_blocks_used"],
 "assumes": ["NEEDS the hook in hooks-pending/p1h.diff",
	     "statement via ONE arbitrary cluster k; cluster ratio 1 or 16 (enumerated)",
	     "call-site facts (the function's own comment, and scan_extent_node): `block` starts at a cluster boundary; num > 0 and num <= 2^31 (an extent has at most 32768 blocks; beyond 2^32 - ratio the unsigned loop counter would wrap)",
	     "mark_block_used is replaced by its contract at cluster granularity (first claim -> block_found_map; second claim -> block_dup_map unless shared_blocks; fsck/mark_block_used_owner proves it of the real function; dup-map allocation failure not modelled here); ext2fs_test_block_bitmap_range2 / ext2fs_mark_block_bitmap_range2 are stubs over the ghost cell of k: 'range is clear' may only be answered when k's cell agrees, marking a range sets k if k lies in it"],
 "native": false
}
*/
/* VERIF-UNIT
{
 "name": "p1_ext_attr_block_range",
 "props": ["C02"],
 "level": "U",
 "tier": "quick",
 "harness": "h_xattr_range",
 "includes": ["e2fsck", "lib/support"],
 "sources": ["lib/ext2fs/blknum.c"],
 "unwind": 3,
 "unwind_reason": "only the loop-free head of check_ext_attr is reachable under the harness assumption (i_file_acl outside the filesystem, or the xattr feature off); the entry-walking loops behind it are unreachable (unwinding assertions checked)",
 "functions": ["e2fsck/pass1.c:check_ext_attr", "e2fsck/pass1.c:mark_inode_bad"],
 "assumes": ["the separable head of check_ext_attr only: an inode whose i_file_acl (48 bits with the 64bit feature) is non-zero and lies outside [s_first_data_block, blocks count), or is non-zero on a filesystem without the ext_attr feature; inode_bad_map as in p1_mark_inode_bad",
	     "statement: such an inode is put into inode_bad_map (pass 2's process_bad_inode then raises PR_2_FILE_ACL_ZERO / PR_2_FILE_ACL_BAD), the block is neither read nor recorded, the function reports 'no EA block'; the walk over a readable EA block is not part of this unit"],
 "native": false
}
*/
/*
 * e2fsck/pass1.c: mark_inode_bad (an inode that needs a closer look in pass 2 lands in inode_bad_map) and
 * mark_blocks_used (a run of blocks is recorded as used: every cluster of the run exactly once).
 */
struct in_mk {
	/* mark_inode_bad */
	unsigned int ino, kino;
	unsigned char i_bad, k_bad, have_map, alloc_fails;
	unsigned int ctxflags;
	/* mark_blocks_used */
	unsigned long long block, k;
	unsigned int num;
	unsigned char bigalloc, found_k, dup_k, sharing_ok, range_clear;
	/* check_ext_attr head */
	unsigned long long file_acl, blocks_count;
	unsigned int first_data_block, compat;
	unsigned char mode;
	unsigned char choice[8];
};
struct in_mk IN;
#include "verif_in.h"
#include "p1_pre.h"

/* ghost cells of cluster k in block_found_map / block_dup_map, and the configuration the contracts refer to */
unsigned char mk_found_k, mk_dup_k, mk_found_k0, mk_dup_k0, mk_sharing_ok, mk_stray;
unsigned int mk_bits;
unsigned long long mk_k, mk_c0;		/* the ghost cluster; the first cluster of the run */

/* the value the dup cell takes when a cluster that is (not) yet found is claimed */
#define MK_DUP_AFTER(found0, dup0) ((found0) && !mk_sharing_ok ? 1 : (dup0))
/* cluster k has been visited by the loop when it lies below c0 + i / ratio */
#define MK_VISITED(i) (mk_k >= mk_c0 && (mk_k - mk_c0) < (unsigned long long) ((i) >> mk_bits))

#define VERIF_INV_PASS1_MARK_BLOCKS_USED \
	__CPROVER_assigns(i, mk_found_k, mk_dup_k) \
	__CPROVER_loop_invariant((i & ((1u << mk_bits) - 1)) == 0 && i < num + (1u << mk_bits)) \
	__CPROVER_loop_invariant(MK_VISITED(i) ? (mk_found_k == 1 && mk_dup_k == MK_DUP_AFTER(mk_found_k0, mk_dup_k0)) \
					       : (mk_found_k == mk_found_k0 && mk_dup_k == mk_dup_k0)) \
	__CPROVER_decreases((unsigned long long) num + 64 - i)

#include "p1_common.h"

static void mark_block_used(e2fsck_t ctx, blk64_t block)
	ASSIGNS(mk_found_k, mk_dup_k)
	ENSURES((block >> mk_bits) == mk_k
		? (mk_found_k == 1 && mk_dup_k == MK_DUP_AFTER(OLD(mk_found_k), OLD(mk_dup_k)))
		: (mk_found_k == OLD(mk_found_k) && mk_dup_k == OLD(mk_dup_k)));

static char mk_bad_tag, mk_found_tag;
unsigned char mk_in[2];		/* inode_bad_map cells: 0 = ino, 1 = kino */
unsigned int mk_marks, mk_alloc_calls;

int ext2fs_mark_generic_bmap(ext2fs_generic_bitmap bitmap, __u64 arg)
{
	int c;

	if ((void *) bitmap != (void *) &mk_bad_tag) { mk_stray = 1; return 0; }
	if (arg == IN.ino) c = 0; else if (arg == IN.kino) c = 1; else { mk_stray = 1; return 0; }
	mk_marks++;
	mk_in[c] = 1;
	if (IN.ino == IN.kino) mk_in[1 - c] = 1;
	return 0;
}
errcode_t e2fsck_allocate_inode_bitmap(ext2_filsys fs, const char *descr, int default_type, const char *profile_name,
				       ext2fs_inode_bitmap *ret)
{
	(void) fs; (void) descr; (void) default_type; (void) profile_name;
	mk_alloc_calls++;
	if (IN.alloc_fails)
		return EXT2_ET_NO_MEMORY;
	*ret = (ext2fs_inode_bitmap) &mk_bad_tag;
	return 0;
}
/* range primitives of gen_bitmap64.c over the ghost cell of cluster k */
static int mk_k_in_range(blk64_t block, unsigned int num)
{
	return num != 0 && mk_k >= (block >> mk_bits) && mk_k <= ((block + num - 1) >> mk_bits);
}
int ext2fs_test_block_bitmap_range2(ext2fs_block_bitmap bmap, blk64_t block, unsigned int num)
{
	int r = IN.range_clear & 1;

	if ((void *) bmap != (void *) &mk_found_tag) mk_stray = 1;
	/* "all clear" is only a possible answer when k's cell agrees */
	ASSUME(!(r && mk_k_in_range(block, num) && mk_found_k));
	return r;
}
void ext2fs_mark_block_bitmap_range2(ext2fs_block_bitmap bmap, blk64_t block, unsigned int num)
{
	if ((void *) bmap != (void *) &mk_found_tag) mk_stray = 1;
	if (mk_k_in_range(block, num))
		mk_found_k = 1;
}

void h_mib(void)
{
	e2fsck_t ctx = malloc(sizeof(*ctx));
	ext2_filsys fs = malloc(sizeof(*fs));

	LOAD_IN();
	ASSUME(ctx && fs);
	ctx->fs = fs;
	ctx->flags = IN.ctxflags;
	ctx->inode_bad_map = IN.have_map ? (ext2fs_inode_bitmap) &mk_bad_tag : 0;
	mk_in[0] = IN.i_bad & 1; mk_in[1] = IN.k_bad & 1;
	if (IN.ino == IN.kino) mk_in[1] = mk_in[0];
	ASSUME(IN.have_map || (!mk_in[0] && !mk_in[1]));
	mk_marks = mk_alloc_calls = 0; mk_stray = 0;
	p1_ghost_reset(P1_NO);

	mark_inode_bad(ctx, IN.ino);

	CHECK(!mk_stray, "only inode_bad_map and only the inode passed in are touched");
	if (!IN.have_map && IN.alloc_fails) {
		REACH("map cannot be allocated");
		CHECK((ctx->flags & E2F_FLAG_ABORT) && p1_nlog == 1 && p1_log[0] == PR_1_ALLOCATE_IBITMAP_ERROR && p1_nserious == 1,
		      "allocation failure: reported, run aborted");
	} else {
		REACH("marked");
		CHECK(mk_in[0] == 1 && ctx->inode_bad_map == (ext2fs_inode_bitmap) &mk_bad_tag, "the inode is in inode_bad_map afterwards");
		CHECK(p1_nlog == 0 && ctx->flags == IN.ctxflags, "nothing raised, flags untouched");
		CHECK(mk_alloc_calls == (IN.have_map ? 0u : 1u), "the map is allocated on first use only");
	}
	if (IN.ino != IN.kino) CHECK(mk_in[1] == (IN.k_bad & 1), "no other inode's membership changes");
	REACH("end");
}

void h_mbu(void)
{
	e2fsck_t ctx = malloc(sizeof(*ctx));
	ext2_filsys fs = malloc(sizeof(*fs));
	int in_range;

	LOAD_IN();
	ASSUME(ctx && fs);
	ctx->fs = fs;
	ctx->block_found_map = (ext2fs_block_bitmap) &mk_found_tag;
	if (IN.bigalloc) { fs->cluster_ratio_bits = 4; mk_bits = 4; } else { fs->cluster_ratio_bits = 0; mk_bits = 0; }
	ASSUME(IN.num > 0 && IN.num <= 0x80000000u);
	ASSUME((IN.block & ((1ULL << mk_bits) - 1)) == 0);		/* starts at a cluster boundary */
	ASSUME(IN.block <= 0xffffffffffffffffULL - IN.num);
	mk_k = IN.k;
	mk_c0 = IN.block >> mk_bits;
	mk_found_k = mk_found_k0 = IN.found_k & 1;
	mk_dup_k = mk_dup_k0 = IN.dup_k & 1;
	mk_sharing_ok = IN.sharing_ok & 1;
	mk_stray = 0;
	p1_ghost_reset(P1_NO);
	in_range = IN.k >= (IN.block >> mk_bits) && IN.k <= ((IN.block + IN.num - 1) >> mk_bits);

	mark_blocks_used(ctx, IN.block, IN.num);

	CHECK(!mk_stray, "only block_found_map is handed to the range primitives");
	if (in_range) {
		REACH("cluster inside the run");
		CHECK(mk_found_k == 1, "every cluster of the run is in block_found_map afterwards");
		CHECK(mk_dup_k == MK_DUP_AFTER(IN.found_k & 1, IN.dup_k & 1),
		      "visited exactly once: a cluster that had no owner does not become multiply claimed; one that had, does (unless sharing is legal)");
		if (IN.k == ((IN.block + IN.num - 1) >> mk_bits) && IN.k != (IN.block >> mk_bits)) REACH("last cluster of a longer run");
	} else {
		REACH("cluster outside the run");
		CHECK(mk_found_k == (IN.found_k & 1) && mk_dup_k == (IN.dup_k & 1), "no cluster outside the run changes");
	}
	if (!(IN.range_clear & 1)) REACH("slow path");
	REACH("end");
}

/* check_ext_attr: EA block pointer out of range / feature off */
void h_xattr_range(void)
{
	e2fsck_t ctx = malloc(sizeof(*ctx));
	ext2_filsys fs = malloc(sizeof(*fs));
	struct ext2_super_block *sb = malloc(sizeof(*sb));
	struct ext2_inode *inode = malloc(128);
	char *buf = malloc(1024);
	struct problem_context pctx;
	struct ea_quota q;
	int r;

	LOAD_IN();
	ASSUME(ctx && fs && sb && inode && buf);
	memset(sb, 0, sizeof(*sb));
	memset(inode, 0, 128);
	ctx->fs = fs;
	ctx->flags = IN.ctxflags;
	ctx->inode_bad_map = IN.have_map ? (ext2fs_inode_bitmap) &mk_bad_tag : 0;
	ctx->block_ea_map = 0;
	ctx->refcount = 0;
	fs->super = sb;
	fs->blocksize = 1024;
	fs->cluster_ratio_bits = 0;
	sb->s_first_data_block = IN.first_data_block;
	sb->s_blocks_count = (unsigned int) IN.blocks_count;
	sb->s_blocks_count_hi = (unsigned int) (IN.blocks_count >> 32);
	sb->s_feature_incompat = EXT4_FEATURE_INCOMPAT_64BIT;
	sb->s_feature_compat = IN.compat;
	ASSUME(IN.file_acl < (1ULL << 48));
	inode->i_file_acl = (unsigned int) IN.file_acl;
	inode->osd2.linux2.l_i_file_acl_high = (unsigned short) (IN.file_acl >> 32);
	memset(&pctx, 0, sizeof(pctx));
	pctx.ino = IN.ino;
	pctx.inode = inode;
	mk_in[0] = IN.i_bad & 1; mk_in[1] = IN.k_bad & 1;
	if (IN.ino == IN.kino) mk_in[1] = mk_in[0];
	ASSUME(IN.have_map || (!mk_in[0] && !mk_in[1]));
	ASSUME(!IN.alloc_fails);
	mk_marks = mk_alloc_calls = 0; mk_stray = 0;
	p1_ghost_reset(P1_NO);
	ASSUME(IN.file_acl != 0);
	ASSUME(!(IN.compat & EXT2_FEATURE_COMPAT_EXT_ATTR) ||
	       !P1F_BLOCK_IN_RANGE(IN.file_acl, IN.first_data_block, IN.blocks_count));

	r = check_ext_attr(ctx, &pctx, buf, &q);

	CHECK(r == 0 && q.blocks == 0 && q.inodes == 0, "no EA block is accounted");
	CHECK(mk_in[0] == 1, "an inode with an EA block pointer outside the filesystem (or without the feature) lands in inode_bad_map");
	CHECK(!mk_stray && p1_nlog == 0 && ctx->block_ea_map == 0, "the block is neither read nor recorded; nothing is raised in pass 1");
	if (IN.ino != IN.kino) CHECK(mk_in[1] == (IN.k_bad & 1), "no other inode's membership changes");
	REACH("end");
}
