/*
 * lpf_common.h — the world of the units on the two directory CREATORS of e2fsck/pass3.c (e2fsck_get_lost_and_found,
 * check_root).  Included by lpf_create.c after it has declared IN, the contracts of the replaced same-file callees
 * and included the real e2fsck/pass3.c.
 *
 * Everything pass3.c calls outside its own file is a stub here, except ext2fs_iblk_set (real lib/ext2fs/i_block.c,
 * linked as a second translation unit; proved in proofs/fileio).  Stubs take their answers from IN.choice[] (consumed
 * in order) and record what they are asked in ghost monitors.  Bitmaps, icount tables and the quota context are
 * opaque tagged handles; marks are logged as (map, argument) pairs.
 *
 * The "disk" is ONE ghost inode image, l_disk: what the last library call that writes the new inode left there
 * (ext2fs_write_new_inode; ext2fs_bmap2, which maps the block and writes the inode it was handed).
 */
#ifndef LPF_COMMON_H
#define LPF_COMMON_H

static struct struct_ext2_filsys FS;
static struct ext2_super_block SB;
static struct e2fsck_struct CTX;

/* ---- choices ---- */
unsigned int l_nchoice;
static unsigned char l_next(void)
{
	unsigned char v = l_nchoice < LPF_NCHOICE ? IN.choice[l_nchoice] : 0;
	l_nchoice++;
	return v;
}
#define L_ERR() ((errcode_t) (l_next() & 1 ? 0 : (long) (0x7F2BB700L + (l_next() & 63))))

/* ---- event counter for ordering statements ---- */
unsigned int l_ev;

/* ---- problem log ---- */
#define LPF_LOG 8u
unsigned int l_nlog;
unsigned int l_code[LPF_LOG];
unsigned char l_ans[LPF_LOG];
int fix_problem(e2fsck_t ctx, problem_t code, struct problem_context *pctx)
{
	int a = l_next() & 1;

	(void) ctx; (void) pctx;
	if (l_nlog < LPF_LOG) {
		l_code[l_nlog] = code;
		l_ans[l_nlog] = (unsigned char) a;
	}
	l_nlog++;
	return a;
}
static unsigned int l_raised(problem_t code)
{
	unsigned int i, n = 0;

	for (i = 0; i < LPF_LOG; i++)
		if (i < l_nlog && l_code[i] == code)
			n++;
	return n;
}
void clear_problem_context(struct problem_context *pctx)
{
	memset(pctx, 0, sizeof(*pctx));
	pctx->blkcount = -1;
	pctx->group = -1;
}

/* ---- bitmaps: a log of marks ---- */
#define LPF_MARKS 10u
unsigned int l_nmark, l_nunmark;
const void *l_mark_map[LPF_MARKS];
unsigned long long l_mark_arg[LPF_MARKS];
unsigned int l_mark_ev[LPF_MARKS];
unsigned char g_root_used, g_root_dir;		/* check_root: bits of inode 2 in inode_used_map / inode_dir_map */

int ext2fs_test_generic_bmap(ext2fs_generic_bitmap bitmap, __u64 arg)
{
	if (bitmap == (ext2fs_generic_bitmap) H_USED && arg == EXT2_ROOT_INO)
		return g_root_used;
	if (bitmap == (ext2fs_generic_bitmap) H_DIRMAP && arg == EXT2_ROOT_INO)
		return g_root_dir;
	return l_next() & 1;
}
int ext2fs_mark_generic_bmap(ext2fs_generic_bitmap bitmap, __u64 arg)
{
	if (l_nmark < LPF_MARKS) {
		l_mark_map[l_nmark] = (const void *) bitmap;
		l_mark_arg[l_nmark] = arg;
		l_mark_ev[l_nmark] = ++l_ev;
	}
	l_nmark++;
	if (bitmap == (ext2fs_generic_bitmap) H_USED && arg == EXT2_ROOT_INO)
		g_root_used = 1;
	if (bitmap == (ext2fs_generic_bitmap) H_DIRMAP && arg == EXT2_ROOT_INO)
		g_root_dir = 1;
	return l_next() & 1;
}
int ext2fs_unmark_generic_bmap(ext2fs_generic_bitmap bitmap, __u64 arg)
{
	(void) bitmap; (void) arg;
	l_nunmark++;
	return l_next() & 1;
}
static unsigned int l_marks(const void *map, unsigned long long arg)
{
	unsigned int i, n = 0;

	for (i = 0; i < LPF_MARKS; i++)
		if (i < l_nmark && l_mark_map[i] == map && l_mark_arg[i] == arg)
			n++;
	return n;
}

/* ---- allocation ---- */
unsigned int l_rb_calls, l_rb_ev;
void e2fsck_read_bitmaps(e2fsck_t ctx)
{
	(void) ctx;
	if (!l_rb_calls)
		l_rb_ev = ++l_ev;
	l_rb_calls++;
}
unsigned int l_newblk_calls, l_newblk_ev; unsigned char l_newblk_badmap;
errcode_t ext2fs_new_block2(ext2_filsys fs, blk64_t goal, ext2fs_block_bitmap map, blk64_t *ret)
{
	unsigned char c = l_next() & 3;

	(void) fs; (void) goal;
	l_newblk_calls++; l_newblk_ev = ++l_ev;
	if (map != H_FOUND)
		l_newblk_badmap = 1;
	if (c == 1)
		return EXT2_ET_BLOCK_ALLOC_FAIL;
	if (c == 2)
		return EXT2_ET_SHORT_READ;
	*ret = IN.new_block;
	return 0;
}
unsigned int l_bstat_calls; blk64_t l_bstat_blk; int l_bstat_sum;
void ext2fs_block_alloc_stats2(ext2_filsys fs, blk64_t blk, int inuse)
{
	(void) fs;
	l_bstat_calls++; l_bstat_blk = blk; l_bstat_sum += inuse;
	++l_ev;
}
unsigned int l_newino_calls, l_newino_ev; ext2_ino_t l_newino_dir; int l_newino_mode; unsigned char l_newino_badmap;
errcode_t ext2fs_new_inode(ext2_filsys fs, ext2_ino_t dir, int mode, ext2fs_inode_bitmap map, ext2_ino_t *ret)
{
	unsigned char c = l_next() & 3;

	(void) fs;
	l_newino_calls++; l_newino_dir = dir; l_newino_mode = mode; l_newino_ev = ++l_ev;
	if (map != H_USED)
		l_newino_badmap = 1;
	if (c == 1)
		return EXT2_ET_INODE_ALLOC_FAIL;
	if (c == 2)
		return EXT2_ET_SHORT_READ;
	*ret = IN.new_ino;
	return 0;
}
unsigned int l_istat_calls; ext2_ino_t l_istat_ino; int l_istat_sum, l_istat_isdir;
void ext2fs_inode_alloc_stats2(ext2_filsys fs, ext2_ino_t ino, int inuse, int isdir)
{
	(void) fs;
	l_istat_calls++; l_istat_ino = ino; l_istat_sum += inuse; l_istat_isdir = isdir;
	++l_ev;
}

/* ---- the new inode on "disk" ---- */
struct ext2_inode l_disk; unsigned char l_disk_valid;
unsigned int l_wni, l_wni_ev; ext2_ino_t l_wni_ino; struct ext2_inode l_wni_img;
errcode_t ext2fs_write_new_inode(ext2_filsys fs, ext2_ino_t ino, struct ext2_inode *inode)
{
	errcode_t e = L_ERR();

	(void) fs;
	l_wni++; l_wni_ino = ino; l_wni_img = *inode; l_wni_ev = ++l_ev;
	if (e)
		return e;
	l_disk = *inode; l_disk_valid = 1;
	return 0;
}
/*
 * ext2fs_bmap2: only the BMAP_SET use of a caller that hands in its own inode copy is given a meaning (anything else is
 * recorded as "foreign" and the harness rejects it).  Library behaviour transcribed from its documentation / bmap.c's
 * contract towards callers: on an inode with EXT4_EXTENTS_FL whose i_block is all zero the extent tree is initialised
 * (header: magic, max 4 entries, depth 0) and an extent (block, length 1) -> *phys_blk is inserted; i_block that is
 * neither zero nor a valid header is refused; without the flag i_block[block] = *phys_blk (block < 12); the inode
 * handed in is updated and written to disk.
 */
unsigned int l_bmap_calls, l_bmap_ok, l_bmap_ev, l_bmap_foreign; ext2_ino_t l_bmap_ino; blk64_t l_bmap_lblk, l_bmap_pblk;
unsigned int l_bmap_flags_at_call;
errcode_t ext2fs_bmap2(ext2_filsys fs, ext2_ino_t ino, struct ext2_inode *inode, char *block_buf, int bmap_flags,
		       blk64_t block, int *ret_flags, blk64_t *phys_blk)
{
	errcode_t e = L_ERR();
	unsigned int i, nz = 0;

	(void) fs; (void) block_buf;
	l_bmap_calls++; l_bmap_ev = ++l_ev; l_bmap_ino = ino; l_bmap_lblk = block; l_bmap_pblk = *phys_blk;
	if (bmap_flags != BMAP_SET || !inode || block >= 12) {
		l_bmap_foreign++;
		return EXT2_ET_OP_NOT_SUPPORTED;
	}
	l_bmap_flags_at_call = inode->i_flags;
	if (ret_flags)
		*ret_flags = 0;
	if (e)
		return e;
	if (inode->i_flags & EXT4_EXTENTS_FL) {
		for (i = 0; i < EXT2_N_BLOCKS; i++)
			nz |= inode->i_block[i];
		if (nz)
			return EXT2_ET_EXTENT_HEADER_BAD;	/* (a non-empty valid tree is not needed by pass 3) */
		inode->i_block[0] = EXT3_EXT_MAGIC | (1u << 16);		/* eh_magic, eh_entries = 1 */
		inode->i_block[1] = 4u;						/* eh_max = 4, eh_depth = 0 */
		inode->i_block[2] = 0;						/* eh_generation */
		inode->i_block[3] = (__u32) block;				/* ee_block */
		inode->i_block[4] = 1u | ((__u32) ((*phys_blk >> 32) & 0xFFFF) << 16);	/* ee_len = 1, ee_start_hi */
		inode->i_block[5] = (__u32) *phys_blk;				/* ee_start */
	} else
		inode->i_block[block] = (__u32) *phys_blk;
	l_disk = *inode; l_disk_valid = 1;
	l_bmap_ok++;
	return 0;
}

/* ---- the directory block ---- */
static char l_dirblock[16];
unsigned int l_ndb; ext2_ino_t l_ndb_ino, l_ndb_parent;
errcode_t ext2fs_new_dir_block(ext2_filsys fs, ext2_ino_t dir_ino, ext2_ino_t parent_ino, char **block)
{
	errcode_t e = L_ERR();

	(void) fs;
	l_ndb++; l_ndb_ino = dir_ino; l_ndb_parent = parent_ino;
	if (e)
		return e;
	*block = malloc(16);
	ASSUME(*block != 0);
	return 0;
}
unsigned int l_wdb, l_wdb_ev; blk64_t l_wdb_blk; ext2_ino_t l_wdb_ino; int l_wdb_flags;
errcode_t ext2fs_write_dir_block4(ext2_filsys fs, blk64_t block, void *buf, int flags, ext2_ino_t ino)
{
	(void) fs; (void) buf;
	l_wdb++; l_wdb_blk = block; l_wdb_ino = ino; l_wdb_flags = flags; l_wdb_ev = ++l_ev;
	return L_ERR();
}

/* ---- linking lost+found into the root ---- */
#define LPF_LINKS 3u
unsigned int l_nlink, l_link_ok;
ext2_ino_t l_link_dir[LPF_LINKS], l_link_ino[LPF_LINKS]; int l_link_flags[LPF_LINKS]; char l_link_name[LPF_LINKS][12];
errcode_t l_link_ret[LPF_LINKS]; unsigned int l_link_ev[LPF_LINKS];
errcode_t ext2fs_link(ext2_filsys fs, ext2_ino_t dir, const char *name, ext2_ino_t ino, int flags)
{
	errcode_t e;
	unsigned char c = l_next() & 3;
	unsigned int i;

	(void) fs;
	e = c == 0 ? 0 : c == 1 ? EXT2_ET_DIR_NO_SPACE : EXT2_ET_DIR_CORRUPTED;
	if (l_nlink < LPF_LINKS) {
		l_link_dir[l_nlink] = dir; l_link_ino[l_nlink] = ino; l_link_flags[l_nlink] = flags;
		for (i = 0; i < 11; i++)
			l_link_name[l_nlink][i] = name[i];	/* static const char name[] = "lost+found": 11 bytes */
		l_link_ret[l_nlink] = e;
		l_link_ev[l_nlink] = ++l_ev;
	}
	l_nlink++;
	if (!e)
		l_link_ok++;
	return e;
}
/* the LIBRARY's directory expansion: allocates and attaches a block, knows nothing of e2fsck's quota context */
unsigned int l_libexp_calls, l_libexp_ok; ext2_ino_t l_libexp_dir;
errcode_t ext2fs_expand_dir(ext2_filsys fs, ext2_ino_t dir)
{
	errcode_t e = L_ERR();

	(void) fs;
	l_libexp_calls++; l_libexp_dir = dir;
	if (!e)
		l_libexp_ok++;
	return e;
}

/* ---- existing lost+found ---- */
unsigned int l_lookup_calls; ext2_ino_t l_lookup_dir; unsigned char l_lookup_badname; errcode_t l_lookup_ret;
errcode_t ext2fs_lookup(ext2_filsys fs, ext2_ino_t dir, const char *name, int namelen, char *buf, ext2_ino_t *inode)
{
	unsigned char c = l_next() & 3;

	(void) fs; (void) buf;
	l_lookup_calls++; l_lookup_dir = dir;
	if (namelen != 10 || name[0] != 'l' || name[4] != '+' || name[9] != 'd')
		l_lookup_badname = 1;
	l_lookup_ret = c == 0 ? 0 : c == 1 ? EXT2_ET_FILE_NOT_FOUND : EXT2_ET_SHORT_READ;
	if (!l_lookup_ret)
		*inode = IN.lookup_ino;
	return l_lookup_ret;
}
errcode_t ext2fs_read_inode_full(ext2_filsys fs, ext2_ino_t ino, struct ext2_inode *inode, int bufsize)
{
	(void) fs; (void) ino;
	if (bufsize == (int) sizeof(struct ext2_inode_large))
		memcpy(inode, IN.old_inode, sizeof(struct ext2_inode_large));
	return L_ERR();
}
errcode_t ext2fs_check_directory(ext2_filsys fs, ext2_ino_t ino)
{
	(void) fs; (void) ino;
	return (l_next() & 1) ? 0 : EXT2_ET_NO_DIRECTORY;
}
unsigned int l_unlink_calls;
errcode_t ext2fs_unlink(ext2_filsys fs, ext2_ino_t dir, const char *name, ext2_ino_t ino, int flags)
{
	(void) fs; (void) dir; (void) name; (void) ino; (void) flags;
	l_unlink_calls++;
	return L_ERR();
}
int e2fsck_dir_will_be_rehashed(e2fsck_t ctx, ext2_ino_t ino) { (void) ctx; (void) ino; return l_next() & 1; }
int e2fsck_dir_info_set_parent(e2fsck_t ctx, ext2_ino_t ino, ext2_ino_t parent)
{ (void) ctx; (void) ino; (void) parent; return l_next() & 1; }
int e2fsck_dir_info_set_dotdot(e2fsck_t ctx, ext2_ino_t ino, ext2_ino_t dotdot)
{ (void) ctx; (void) ino; (void) dotdot; return l_next() & 1; }

/* ---- e2fsck's own books ---- */
unsigned int l_adi; ext2_ino_t l_adi_ino, l_adi_parent;
void e2fsck_add_dir_info(e2fsck_t ctx, ext2_ino_t ino, ext2_ino_t parent)
{
	(void) ctx;
	l_adi++; l_adi_ino = ino; l_adi_parent = parent;
}
unsigned int l_store[2]; __u16 l_store_val[2]; ext2_ino_t l_store_ino[2];
errcode_t ext2fs_icount_store(ext2_icount_t icount, ext2_ino_t ino, __u16 count)
{
	int w = icount == H_LINKINFO;

	l_store[w]++; l_store_val[w] = count; l_store_ino[w] = ino;
	return 0;
}
unsigned int l_qadd; ext2_ino_t l_qadd_ino; unsigned long long l_qadd_space; unsigned char l_qadd_badctx; unsigned int l_qadd_uid;
unsigned int l_qadd_root_calls; unsigned long long l_qadd_root;	/* charges to inode 2, kept apart */
void quota_data_add(quota_ctx_t qctx, struct ext2_inode_large *inode, ext2_ino_t ino, qsize_t space)
{
	if (ino == EXT2_ROOT_INO) {
		l_qadd_root_calls++; l_qadd_root += (unsigned long long) space;
	} else {
		l_qadd++; l_qadd_ino = ino; l_qadd_space = (unsigned long long) space;
	}
	l_qadd_uid = inode->i_uid;
	if (qctx != H_QCTX)
		l_qadd_badctx = 1;
}
unsigned int l_qino; ext2_ino_t l_qino_ino; int l_qino_sum;
void quota_data_inodes(quota_ctx_t qctx, struct ext2_inode_large *inode, ext2_ino_t ino, int adjust)
{
	(void) qctx; (void) inode;
	l_qino++; l_qino_ino = ino; l_qino_sum += adjust;
}
char *gettext(const char *msgid) { return (char *) msgid; }

/* ---- the world ---- */
static unsigned int lpf_blocksize(void) { return IN.bs_sel == 0 ? 1024u : IN.bs_sel == 1 ? 4096u : 65536u; }
static unsigned int lpf_ratio_bits(void) { return !IN.bigalloc ? 0u : IN.cl_sel == 0 ? 0u : IN.cl_sel == 1 ? 2u : 4u; }

static void lpf_world(void)
{
	unsigned int bs, bits, lbs;

	ASSUME(IN.bs_sel <= 2 && IN.cl_sel <= 2 && IN.extents <= 1 && IN.bigalloc <= 1 && IN.huge_file <= 1);
	bs = lpf_blocksize(); bits = lpf_ratio_bits();
	lbs = bs == 1024u ? 0u : bs == 4096u ? 2u : 6u;

	l_nchoice = l_ev = l_nlog = l_nmark = l_nunmark = 0;
	l_rb_calls = l_rb_ev = 0; l_newblk_calls = l_newblk_ev = 0; l_newblk_badmap = 0;
	l_bstat_calls = 0; l_bstat_blk = 0; l_bstat_sum = 0;
	l_newino_calls = l_newino_ev = 0; l_newino_dir = 0; l_newino_mode = 0; l_newino_badmap = 0;
	l_istat_calls = 0; l_istat_ino = 0; l_istat_sum = 0; l_istat_isdir = 0;
	memset(&l_disk, 0, sizeof(l_disk)); l_disk_valid = 0;
	l_wni = l_wni_ev = 0; l_wni_ino = 0; memset(&l_wni_img, 0, sizeof(l_wni_img));
	l_bmap_calls = l_bmap_ok = l_bmap_ev = l_bmap_foreign = 0; l_bmap_ino = 0; l_bmap_lblk = l_bmap_pblk = 0;
	l_bmap_flags_at_call = 0;
	l_ndb = 0; l_ndb_ino = l_ndb_parent = 0; l_wdb = l_wdb_ev = 0; l_wdb_blk = 0; l_wdb_ino = 0; l_wdb_flags = 0;
	l_nlink = l_link_ok = 0; l_libexp_calls = l_libexp_ok = 0; l_libexp_dir = 0;
	l_lookup_calls = 0; l_lookup_dir = 0; l_lookup_badname = 0; l_lookup_ret = 0; l_unlink_calls = 0;
	l_adi = 0; l_adi_ino = l_adi_parent = 0;
	l_store[0] = l_store[1] = 0; l_store_val[0] = l_store_val[1] = 0; l_store_ino[0] = l_store_ino[1] = 0;
	l_qadd = 0; l_qadd_ino = 0; l_qadd_space = 0; l_qadd_badctx = 0; l_qadd_uid = 0; l_qadd_root_calls = 0; l_qadd_root = 0;
	l_qino = 0; l_qino_ino = 0; l_qino_sum = 0;
	l_adj_calls = l_adj_root_inc = l_adj_root_inc_ev = l_adj_other = 0;
	l_exp_calls = 0; l_exp_dir = 0; l_exp_num = 0; l_exp_ok = 0;
	g_root_used = IN.root_used & 1; g_root_dir = IN.root_dir & 1;

	memset(&SB, 0, sizeof(SB));
	SB.s_log_block_size = lbs;
	SB.s_log_cluster_size = lbs + bits;
	SB.s_first_ino = IN.first_ino;
	SB.s_rev_level = EXT2_DYNAMIC_REV;
	SB.s_first_data_block = bs == 1024u ? 1u : 0u;
	SB.s_blocks_count = (__u32) IN.blocks_count;
	SB.s_blocks_count_hi = (__u32) (IN.blocks_count >> 32);
	SB.s_feature_incompat = EXT2_FEATURE_INCOMPAT_FILETYPE | (IN.extents ? EXT3_FEATURE_INCOMPAT_EXTENTS : 0) |
				(IN.blocks_count >> 32 ? EXT4_FEATURE_INCOMPAT_64BIT : 0);
	SB.s_feature_ro_compat = (IN.bigalloc ? EXT4_FEATURE_RO_COMPAT_BIGALLOC : 0) |
				 (IN.huge_file ? EXT4_FEATURE_RO_COMPAT_HUGE_FILE : 0);
	memset(&FS, 0, sizeof(FS));
	FS.super = &SB;
	FS.blocksize = bs;
	FS.cluster_ratio_bits = (int) bits;
	FS.flags = IN.fsflags;
	FS.block_map = H_BMAP;
	FS.inode_map = H_IMAP;
	memset(&CTX, 0, sizeof(CTX));
	CTX.fs = &FS;
	CTX.options = IN.options;
	CTX.flags = IN.ctxflags;
	CTX.now = IN.now;
	CTX.inode_used_map = H_USED;
	CTX.inode_dir_map = H_DIRMAP;
	CTX.block_found_map = H_FOUND;
	CTX.inode_count = H_ICOUNT;
	CTX.inode_link_info = H_LINKINFO;
	CTX.qctx = H_QCTX;
	CTX.root_repair_block = IN.repair_block;
	CTX.lnf_repair_block = IN.repair_block;
	CTX.lost_and_found = 0;
}

/* the filesystem / the created inode in the vocabulary of specs/lpf_pass1_rules.h */
static void lpf_views(struct lpf_fs *f, struct lpf_dir *d, ext2_ino_t ino, unsigned long long blk)
{
	unsigned int i;

	f->blocksize = lpf_blocksize();
	f->cluster_ratio_bits = lpf_ratio_bits();
	f->extents = IN.extents; f->bigalloc = IN.bigalloc; f->inline_data = 0; f->huge_file = IN.huge_file;
	f->first_ino = IN.first_ino;
	f->first_data_block = f->blocksize == 1024u ? 1 : 0;
	f->blocks_count = IN.blocks_count;
	d->ino = ino;
	d->mode = l_disk.i_mode; d->links = l_disk.i_links_count; d->flags = l_disk.i_flags; d->dtime = l_disk.i_dtime;
	d->size_lo = l_disk.i_size; d->size_high = l_disk.i_size_high;
	d->blocks_lo = l_disk.i_blocks; d->blocks_hi = l_disk.osd2.linux2.l_i_blocks_hi;
	d->faddr = l_disk.i_faddr; d->file_acl = l_disk.i_file_acl; d->file_acl_high = l_disk.osd2.linux2.l_i_file_acl_high;
	d->frag = 0; d->fsize = 0;			/* (the Linux osd2 has no fragment fields) */
	for (i = 0; i < 15; i++)
		d->iblock[i] = l_disk.i_block[i];
	d->data_block = blk;
}
#endif
