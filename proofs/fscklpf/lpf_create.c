/* VERIF-UNIT
{
 "name": "lpf_lnf_bookkeeping",
 "props": ["C01"],
 "level": "P",
 "tier": "quick",
 "harness": "h_lnf_book",
 "replace": ["e2fsck_adjust_inode_count", "e2fsck_expand_directory"],
 "sources": ["lib/ext2fs/i_block.c"],
 "includes": ["e2fsck", "lib/support"],
 "unwind": 17,
 "unwind_reason": "e2fsck_get_lost_and_found is loop-free; harness/stub loops: 15 i_block words, 11 name bytes, 10 mark-log slots, 8 problem-log slots",
 "functions": ["e2fsck/pass3.c:e2fsck_get_lost_and_found"],
 "assumes": ["no frame enforcement (pass3.c is a large TU): effects are observed through the stubs' ghost monitors and the harness-owned ctx / fs objects",
	     "all libext2fs / e2fsck callees outside pass3.c are stubs that succeed or fail arbitrarily and record their arguments (lpf_common.h); ext2fs_iblk_set is the REAL lib/ext2fs/i_block.c (second TU); e2fsck_adjust_inode_count and e2fsck_expand_directory (same file, own units p34_adjust_inode_count / expand_directory_accounting) are replaced by recording contracts",
	     "ext2fs_bmap2 stub = the library's documented BMAP_SET behaviour on a caller-supplied inode: flag set + empty i_block => initialised extent header with the one extent, else i_block[lblk] = blk; the inode handed in is written back (the ghost disk image l_disk is the last image written by ext2fs_write_new_inode / ext2fs_bmap2)",
	     "block size in {1024, 4096, 65536}; cluster ratio 1 without bigalloc, 2^{0,2,4} with; blocks_count <= 2^48; ext2fs_new_block2 / the block pass 1 reserved lie inside the filesystem; ext2fs_new_inode hands out a non-reserved inode (>= s_first_ino >= 11)",
	     "the failure paths (some library call fails half way) are only checked for: result 0, nothing recorded in dirinfo / icount / quota; the resources already taken are left to pass 5 (an I/O error run does not claim success)"],
 "backend": "cadical",
 "native": false
}
*/
/* VERIF-UNIT
{
 "name": "lpf_lnf_next_pass1",
 "props": ["C01"],
 "level": "P",
 "tier": "quick",
 "harness": "h_lnf_next",
 "replace": ["e2fsck_adjust_inode_count", "e2fsck_expand_directory"],
 "sources": ["lib/ext2fs/i_block.c"],
 "includes": ["e2fsck", "lib/support"],
 "unwind": 17,
 "unwind_reason": "as lpf_lnf_bookkeeping",
 "functions": ["e2fsck/pass3.c:e2fsck_get_lost_and_found"],
 "assumes": ["as lpf_lnf_bookkeeping",
	     "configurations WITHOUT bigalloc and with blocks_count <= 2^32 (the other two are the units lpf_lnf_next_pass1_bigalloc / lpf_lnf_next_pass1_64bit)",
	     "acceptance by the next run = specs/lpf_pass1_rules.h (R1..R10 transcribed from e2fsck/pass1.c) applied to the ghost disk image"],
 "backend": "cadical",
 "native": false
}
*/
/* VERIF-UNIT
{
 "name": "lpf_lnf_next_pass1_bigalloc",
 "props": ["C01"],
 "level": "P",
 "tier": "quick",
 "harness": "h_lnf_next_bigalloc",
 "replace": ["e2fsck_adjust_inode_count", "e2fsck_expand_directory"],
 "sources": ["lib/ext2fs/i_block.c"],
 "includes": ["e2fsck", "lib/support"],
 "unwind": 17,
 "unwind_reason": "as lpf_lnf_bookkeeping",
 "functions": ["e2fsck/pass3.c:e2fsck_get_lost_and_found"],
 "assumes": ["as lpf_lnf_next_pass1, for bigalloc filesystems (which have the extents feature: mke2fs refuses bigalloc without extents, and a block-mapped directory could not be legal there at all)",
	     "FAILS ON THE UNCHANGED TREE (genuine defect, findings/C01_lpf_blockmapped_on_bigalloc): the new lost+found is block mapped -> rule R9 (PR_1_NO_BIGALLOC_BLOCKMAP_FILES) of the next run; passes with proposed-fix.patch"],
 "backend": "cadical",
 "native": false
}
*/
/* VERIF-UNIT
{
 "name": "lpf_lnf_next_pass1_64bit",
 "props": ["C01"],
 "level": "P",
 "tier": "quick",
 "harness": "h_lnf_next_64bit",
 "replace": ["e2fsck_adjust_inode_count", "e2fsck_expand_directory"],
 "sources": ["lib/ext2fs/i_block.c"],
 "includes": ["e2fsck", "lib/support"],
 "unwind": 17,
 "unwind_reason": "as lpf_lnf_bookkeeping",
 "functions": ["e2fsck/pass3.c:e2fsck_get_lost_and_found"],
 "assumes": ["as lpf_lnf_next_pass1, for extents filesystems without bigalloc whose free block lies at or beyond 2^32 (64bit feature; needs extents)",
	     "FAILS ON THE UNCHANGED TREE (same root cause as findings/C01_lpf_blockmapped_on_bigalloc, no native demo: needs a > 16 TiB image with the first 2^32 blocks in use): i_block[0] = blk truncates the block number of the block-mapped directory -> rule R6; passes with that finding's proposed-fix.patch"],
 "backend": "cadical",
 "native": false
}
*/
/* VERIF-UNIT
{
 "name": "lpf_lnf_mkdir_convention",
 "props": ["C01"],
 "level": "P",
 "tier": "obs",
 "harness": "h_lnf_conv",
 "replace": ["e2fsck_adjust_inode_count", "e2fsck_expand_directory"],
 "sources": ["lib/ext2fs/i_block.c"],
 "includes": ["e2fsck", "lib/support"],
 "unwind": 17,
 "unwind_reason": "as lpf_lnf_bookkeeping",
 "functions": ["e2fsck/pass3.c:e2fsck_get_lost_and_found"],
 "assumes": ["as lpf_lnf_bookkeeping",
	     "OBSERVATION, stronger than C01: on a filesystem with the extents feature the new directory is extent mapped, as lib/ext2fs/mkdir.c and the kernel create directories.  Fails on the unchanged tree (block-mapped lost+found on every ext4; merely legal outside bigalloc), passes with findings/C01_lpf_blockmapped_on_bigalloc/proposed-fix.patch"],
 "backend": "cadical",
 "native": false
}
*/
/* VERIF-UNIT
{
 "name": "lpf_lnf_root_expand_charged",
 "props": ["C01"],
 "level": "P",
 "tier": "quick",
 "harness": "h_lnf_rootexp",
 "replace": ["e2fsck_adjust_inode_count", "e2fsck_expand_directory"],
 "sources": ["lib/ext2fs/i_block.c"],
 "includes": ["e2fsck", "lib/support"],
 "unwind": 17,
 "unwind_reason": "as lpf_lnf_bookkeeping",
 "functions": ["e2fsck/pass3.c:e2fsck_get_lost_and_found"],
 "assumes": ["as lpf_lnf_bookkeeping",
	     "statement: a block that pass 3 adds to the ROOT directory (no room for the lost+found entry) is charged to the quota context like every other block pass 3 hands out: the growth goes through e2fsck_expand_directory (whose accounting is the unit expand_directory_accounting) or is followed by an explicit quota_data_add for inode 2",
	     "FAILS ON THE UNCHANGED TREE (genuine defect, findings/C01_lpf_root_expand_quota): the root is grown by the bare library routine ext2fs_expand_dir, nothing is charged; the next run reports PR_6_UPDATE_QUOTAS; passes with proposed-fix.patch"],
 "backend": "cadical",
 "native": false
}
*/
/* VERIF-UNIT
{
 "name": "lpf_root_bookkeeping",
 "props": ["C01"],
 "level": "P",
 "tier": "quick",
 "harness": "h_root_book",
 "replace": ["e2fsck_adjust_inode_count", "e2fsck_expand_directory"],
 "sources": ["lib/ext2fs/i_block.c"],
 "includes": ["e2fsck", "lib/support"],
 "unwind": 17,
 "unwind_reason": "check_root is loop-free; harness/stub loops as lpf_lnf_bookkeeping",
 "functions": ["e2fsck/pass3.c:check_root"],
 "assumes": ["as lpf_lnf_bookkeeping (stubs, real ext2fs_iblk_set, enumerated geometry)",
	     "check_root marks the block and the inode directly in fs->block_map / fs->inode_map (dirty flags set) and does NOT adjust the group / superblock free counters: pass 5 of the SAME run recomputes them from the maps (units pass5_groups) — not part of this statement",
	     "complements p34_check_root (decisions, ordering): here i_blocks is the real value, the quota charge and the attachment of the block are stated"],
 "backend": "cadical",
 "native": false
}
*/
/* VERIF-UNIT
{
 "name": "lpf_root_next_pass1",
 "props": ["C01"],
 "level": "P",
 "tier": "quick",
 "harness": "h_root_next",
 "replace": ["e2fsck_adjust_inode_count", "e2fsck_expand_directory"],
 "sources": ["lib/ext2fs/i_block.c"],
 "includes": ["e2fsck", "lib/support"],
 "unwind": 17,
 "unwind_reason": "as lpf_root_bookkeeping",
 "functions": ["e2fsck/pass3.c:check_root"],
 "assumes": ["as lpf_root_bookkeeping; configurations WITHOUT bigalloc and with blocks_count <= 2^32",
	     "acceptance by the next run = specs/lpf_pass1_rules.h applied to the ghost disk image of inode 2"],
 "backend": "cadical",
 "native": false
}
*/
/* VERIF-UNIT
{
 "name": "lpf_root_next_pass1_bigalloc",
 "props": ["C01"],
 "level": "P",
 "tier": "quick",
 "harness": "h_root_next_bigalloc",
 "replace": ["e2fsck_adjust_inode_count", "e2fsck_expand_directory"],
 "sources": ["lib/ext2fs/i_block.c"],
 "includes": ["e2fsck", "lib/support"],
 "unwind": 17,
 "unwind_reason": "as lpf_root_bookkeeping",
 "functions": ["e2fsck/pass3.c:check_root"],
 "assumes": ["as lpf_root_next_pass1, for bigalloc filesystems (with the extents feature)",
	     "FAILS ON THE UNCHANGED TREE (genuine defect, findings/C01_lpf_blockmapped_on_bigalloc): the re-created root is block mapped -> rule R9 of the next run; passes with proposed-fix.patch"],
 "backend": "cadical",
 "native": false
}
*/
/* VERIF-UNIT
{
 "name": "lpf_root_next_pass1_64bit",
 "props": ["C01"],
 "level": "P",
 "tier": "quick",
 "harness": "h_root_next_64bit",
 "replace": ["e2fsck_adjust_inode_count", "e2fsck_expand_directory"],
 "sources": ["lib/ext2fs/i_block.c"],
 "includes": ["e2fsck", "lib/support"],
 "unwind": 17,
 "unwind_reason": "as lpf_root_bookkeeping",
 "functions": ["e2fsck/pass3.c:check_root"],
 "assumes": ["as lpf_root_next_pass1, for extents filesystems without bigalloc whose free block lies at or beyond 2^32",
	     "FAILS ON THE UNCHANGED TREE: i_block[0] = blk truncates the block number (rule R6); passes with findings/C01_lpf_blockmapped_on_bigalloc/proposed-fix.patch"],
 "backend": "cadical",
 "native": false
}
*/
/* VERIF-UNIT
{
 "name": "lpf_root_mkdir_convention",
 "props": ["C01"],
 "level": "P",
 "tier": "obs",
 "harness": "h_root_conv",
 "replace": ["e2fsck_adjust_inode_count", "e2fsck_expand_directory"],
 "sources": ["lib/ext2fs/i_block.c"],
 "includes": ["e2fsck", "lib/support"],
 "unwind": 17,
 "unwind_reason": "as lpf_root_bookkeeping",
 "functions": ["e2fsck/pass3.c:check_root"],
 "assumes": ["as lpf_root_bookkeeping",
	     "OBSERVATION, stronger than C01: extents feature => the new root is extent mapped.  Fails on the unchanged tree, passes with findings/C01_lpf_blockmapped_on_bigalloc/proposed-fix.patch"],
 "backend": "cadical",
 "native": false
}
*/
/*
 * e2fsck/pass3.c — the two places where e2fsck CREATES a directory: e2fsck_get_lost_and_found (a missing or unusable
 * /lost+found) and check_root (a missing root).  C01: what a run creates must satisfy the checks of the next run.
 *
 * Statement, on the path where the directory is created (D = the new inode, B = its block, taken from pass 1's
 * reservation ctx->{lnf,root}_repair_block or from ext2fs_new_block2 on block_found_map):
 *
 *   bookkeeping (lpf_*_bookkeeping)
 *     B is in block_found_map (marked here unless pass 1 reserved it) and in the filesystem's block bitmap: lost+found
 *       through ext2fs_block_alloc_stats2(B, +1) exactly once, the root through a direct mark + dirty flag;
 *     D is in inode_used_map, inode_dir_map (once each) and in the filesystem's inode bitmap: lost+found through
 *       ext2fs_inode_alloc_stats2(D, +1, directory) exactly once, the root through a direct mark + dirty flag;
 *     the bitmaps were read before anything is allocated;
 *     the inode written (once, before the directory block: the checksum of the block needs the inode) is a directory
 *       with the documented permissions (lost+found 0700, root 0755), 2 links, i_size one block, i_blocks one CLUSTER
 *       (512-byte sectors), no deletion time;
 *     B is attached to D: either i_block[0] = B in a block-mapped inode, or ext2fs_bmap2(D, BMAP_SET, 0 -> B) on the
 *       inode with EXT4_EXTENTS_FL, after the inode exists on disk;
 *     the directory block is a fresh one ('.' = D, '..' = the root) written checksummed (ext2fs_write_dir_block4 for D)
 *       to B;
 *     lost+found: linked into the root as "lost+found" with type directory, a second attempt only after 'no space' and
 *       a successful growth of the root; the root's link counts adjusted by +1 exactly once, after the link exists;
 *     dirinfo (D, parent root) added once; found and recorded link counts of D stored as 2;
 *     quota: one CLUSTER (not one block) and one inode charged for D, once;
 *     ctx->lost_and_found = D = the result;
 *     when the function gives up (result 0) nothing is recorded in dirinfo / icount / quota and ctx->lost_and_found is 0
 *       (or the root after PR_3_NO_SPACE_TO_RECOVER).
 *   acceptance (lpf_*_next_pass1*): the inode image on disk satisfies specs/lpf_pass1_rules.h.
 *   root growth (lpf_lnf_root_expand_charged): see the unit block.
 */
#include "verif.h"

#define LPF_NCHOICE 44u
struct in_lpf {
	unsigned char bs_sel, cl_sel, extents, bigalloc, huge_file;
	unsigned int first_ino;
	unsigned long long blocks_count, repair_block, new_block;
	unsigned int new_ino, lookup_ino;
	unsigned int options, ctxflags, fsflags;
	long long now;
	unsigned char root_used, root_dir;
	unsigned char old_inode[160];
	unsigned char choice[LPF_NCHOICE];
};
struct in_lpf IN;
#include "verif_in.h"

#define _GNU_SOURCE 1
#include "config.h"
#include <string.h>
#include <stdio.h>
#include "e2fsck.h"
#include "lpf_pass1_rules.h"

/* ---- opaque handles ---- */
static char T_USED, T_DIRMAP, T_FOUND, T_BMAP, T_IMAP, T_ICOUNT, T_LINKINFO, T_QCTX;
#define H_USED		((ext2fs_inode_bitmap) (void *) &T_USED)
#define H_DIRMAP	((ext2fs_inode_bitmap) (void *) &T_DIRMAP)
#define H_FOUND		((ext2fs_block_bitmap) (void *) &T_FOUND)
#define H_BMAP		((ext2fs_block_bitmap) (void *) &T_BMAP)
#define H_IMAP		((ext2fs_inode_bitmap) (void *) &T_IMAP)
#define H_ICOUNT	((ext2_icount_t) (void *) &T_ICOUNT)
#define H_LINKINFO	((ext2_icount_t) (void *) &T_LINKINFO)
#define H_QCTX		((quota_ctx_t) (void *) &T_QCTX)

/* ---- ghost state of the replaced same-file callees ---- */
unsigned int l_adj_calls;		/* calls of e2fsck_adjust_inode_count */
unsigned int l_adj_root_inc;		/* ... with (EXT2_ROOT_INO, +1) */
unsigned int l_adj_root_inc_ev;		/* event number of the last such call */
unsigned int l_adj_other;		/* ... with anything else */
extern unsigned int l_ev;
unsigned int l_exp_calls, l_exp_ok; ext2_ino_t l_exp_dir; int l_exp_num;

errcode_t e2fsck_adjust_inode_count(e2fsck_t ctx, ext2_ino_t ino, int adj)
	ASSIGNS(l_adj_calls, l_adj_root_inc, l_adj_root_inc_ev, l_adj_other, l_ev)
	ENSURES(l_adj_calls == OLD(l_adj_calls) + 1)
	ENSURES(l_ev == OLD(l_ev) + 1)
	ENSURES(l_adj_root_inc == OLD(l_adj_root_inc) + ((ino == EXT2_ROOT_INO && adj == 1) ? 1 : 0))
	ENSURES(l_adj_other == OLD(l_adj_other) + ((ino == EXT2_ROOT_INO && adj == 1) ? 0 : 1))
	ENSURES((ino == EXT2_ROOT_INO && adj == 1) ? l_adj_root_inc_ev == l_ev : l_adj_root_inc_ev == OLD(l_adj_root_inc_ev));

/* e2fsck's own directory growth: allocates on block_found_map, adjusts i_size / i_blocks and CHARGES THE QUOTA for the
 * new clusters (unit expand_directory_accounting) */
errcode_t e2fsck_expand_directory(e2fsck_t ctx, ext2_ino_t dir, int num, int guaranteed_size)
	ASSIGNS(l_exp_calls, l_exp_dir, l_exp_num, l_exp_ok)
	ENSURES(l_exp_calls == OLD(l_exp_calls) + 1 && l_exp_dir == dir && l_exp_num == num)
	ENSURES(l_exp_ok == OLD(l_exp_ok) + (RET == 0 ? 1 : 0));

#include "e2fsck/pass3.c"

#include "lpf_common.h"

enum { W_BOOK, W_NEXT, W_NEXT_BIGALLOC, W_NEXT_64BIT, W_CONV, W_ROOTEXP };

static void lpf_config(int what)
{
	ASSUME(IN.first_ino >= 11);
	ASSUME(IN.blocks_count >= 64 && IN.blocks_count <= (1ULL << 48));
	ASSUME(IN.new_block >= SB.s_first_data_block && IN.new_block != 0 && IN.new_block < IN.blocks_count);
	ASSUME(IN.repair_block == 0 || (IN.repair_block >= SB.s_first_data_block && IN.repair_block < IN.blocks_count));
	ASSUME(!(IN.blocks_count >> 32) || IN.extents);	/* the 64bit feature needs extents (mke2fs; block maps are 32-bit) */
	if (what == W_NEXT)
		ASSUME(!IN.bigalloc && IN.blocks_count <= (1ULL << 32));
	if (what == W_NEXT_BIGALLOC)
		ASSUME(IN.bigalloc && IN.extents);
	if (what == W_NEXT_64BIT)
		ASSUME(!IN.bigalloc && IN.extents && (IN.repair_block ? IN.repair_block : IN.new_block) >= (1ULL << 32));
}

/* the acceptance statements shared by both creators */
static void lpf_acceptance(int what, ext2_ino_t ino, unsigned long long blk, unsigned int perm)
{
	struct lpf_fs f;
	struct lpf_dir d;

	lpf_views(&f, &d, ino, blk);
	CHECK(l_disk_valid, "the new inode is on disk");
	if (what == W_CONV) {
		CHECK(lpf_follows_mkdir_convention(&f, &d), "extents feature: the new directory is extent mapped (as ext2fs_mkdir / the kernel create it)");
		return;
	}
	CHECK(lpf_r9_bigalloc(&f, &d), "next run, pass 1 R9: on bigalloc the new directory is not block mapped (PR_1_NO_BIGALLOC_BLOCKMAP_FILES)");
	CHECK(lpf_r6_map(&f, &d), "next run, pass 1 R6: the block map of the new directory names exactly its block");
	CHECK(lpf_pass1_accepts(&f, &d), "next run, pass 1 raises nothing for the new directory (R1..R10)");
	CHECK(lpf_links_of_empty_dir(&d), "next run, pass 4: two links");
	CHECK(d.mode == (LPF_S_IFDIR | perm), "directory with the documented permissions");
}

/* ================= e2fsck_get_lost_and_found ================= */
static void lnf_common(int what)
{
	ext2_ino_t r, ino;
	unsigned long long blk, cluster_size;
	unsigned int n, sect;

	LOAD_IN();
	lpf_world();
	lpf_config(what);
	ASSUME(IN.new_ino >= IN.first_ino);
	ASSUME(IN.lookup_ino != 0);
	blk = IN.repair_block ? IN.repair_block : IN.new_block;
	ino = IN.new_ino;
	cluster_size = (unsigned long long) lpf_blocksize() << lpf_ratio_bits();
	sect = (lpf_blocksize() >> 9) << lpf_ratio_bits();

	r = e2fsck_get_lost_and_found(&CTX, 1);

	CHECK(l_lookup_calls == 1 && l_lookup_dir == EXT2_ROOT_INO && !l_lookup_badname, "lost+found is looked up in the root, by its name");
	if (r != 0 && l_newino_calls == 0) {
		CHECK(r == IN.lookup_ino && CTX.lost_and_found == r, "an existing lost+found directory is the answer");
		CHECK(l_wni + l_wdb + l_nmark + l_bstat_calls + l_istat_calls + l_qadd + l_qino + l_adi + l_nlink + l_adj_calls == 0 &&
		      l_nlog == 0, "existing lost+found: nothing written, marked, charged or reported");
	}
	if (r == 0) {
		CHECK(CTX.lost_and_found == 0 || (CTX.lost_and_found == EXT2_ROOT_INO && l_raised(PR_3_NO_SPACE_TO_RECOVER) == 1),
		      "given up: no lost+found recorded (the root stands in only after PR_3_NO_SPACE_TO_RECOVER)");
		CHECK(l_adi == 0 && l_store[0] + l_store[1] == 0 && l_qadd + l_qino == 0 && l_adj_root_inc == 0,
		      "given up: no dirinfo, no counts, no quota charge, root's link count untouched");
	}
	if (r != 0 && l_newino_calls != 0) {
		REACH("lost+found created");
		CHECK(r == ino && CTX.lost_and_found == ino, "the new inode is lost+found and the result");
		if (l_nlink == 2)
			REACH("root had to grow");
		if (what == W_BOOK) {
			/* the block */
			CHECK(l_rb_calls >= 1 && l_rb_ev < l_newino_ev && (l_newblk_calls == 0 || l_rb_ev < l_newblk_ev),
			      "the bitmaps are read before anything is allocated");
			CHECK(l_newblk_calls == (IN.repair_block == 0) && !l_newblk_badmap,
			      "a block is allocated (on block_found_map) unless pass 1 has reserved one");
			CHECK(CTX.lnf_repair_block == 0, "the reserved block is consumed");
			CHECK(l_marks(H_FOUND, blk) == (IN.repair_block == 0),
			      "block_found_map: a newly allocated block is marked once (the reserved one was marked by pass 1)");
			CHECK(l_bstat_calls == 1 && l_bstat_blk == blk && l_bstat_sum == 1,
			      "filesystem block bitmap and free counters: ext2fs_block_alloc_stats2(block, +1) exactly once");
			/* the inode */
			CHECK(l_newino_calls == 1 && l_newino_dir == EXT2_ROOT_INO && l_newino_mode == 040700 && !l_newino_badmap,
			      "one inode allocated near the root, on inode_used_map");
			CHECK(l_marks(H_USED, ino) == 1 && l_marks(H_DIRMAP, ino) == 1, "inode_used_map and inode_dir_map marked once each");
			CHECK(l_nmark == 2 + (IN.repair_block == 0) && l_nunmark == 0, "no other bit of any map is touched");
			CHECK(l_istat_calls == 1 && l_istat_ino == ino && l_istat_sum == 1 && l_istat_isdir == 1,
			      "filesystem inode bitmap and counters: ext2fs_inode_alloc_stats2(inode, +1, directory) exactly once");
			CHECK(l_wni == 1 && l_wni_ino == ino, "the inode is written once");
			CHECK(l_wni_img.i_mode == 040700 && l_wni_img.i_links_count == 2 && l_wni_img.i_size == lpf_blocksize() &&
			      l_wni_img.i_size_high == 0 && l_wni_img.i_dtime == 0 && l_wni_img.i_uid == 0 && l_wni_img.i_gid == 0,
			      "a directory 0700 owned by root with 2 links and one block of size");
			CHECK(l_wni_img.i_blocks == sect && l_wni_img.osd2.linux2.l_i_blocks_hi == 0 && l_disk.i_blocks == sect,
			      "i_blocks accounts exactly one cluster (in 512-byte sectors)");
			/* the attachment */
			CHECK(l_bmap_foreign == 0 && l_bmap_calls <= 1, "ext2fs_bmap2 is used, if at all, once to SET a mapping in the caller's inode");
			CHECK((!(l_wni_img.i_flags & EXT4_EXTENTS_FL) && l_wni_img.i_block[0] == (__u32) blk) ||
			      (l_bmap_ok == 1 && l_bmap_ino == ino && l_bmap_lblk == 0 && l_bmap_pblk == blk && l_wni_ev < l_bmap_ev),
			      "the block is attached: i_block[0] of a block-mapped inode (whether 32 bits can hold it: rule R6 of the acceptance units), or ext2fs_bmap2(SET, 0 -> block) once the inode exists");
			/* the directory block */
			CHECK(l_ndb == 1 && l_ndb_ino == ino && l_ndb_parent == EXT2_ROOT_INO, "a fresh directory block: '.' = the inode, '..' = the root");
			CHECK(l_wdb == 1 && l_wdb_blk == blk && l_wdb_ino == ino && l_wdb_flags == 0,
			      "written (checksummed for this inode) to the block");
			CHECK(l_wni_ev < l_wdb_ev, "inode before directory block (checksum seed)");
			/* the link */
			n = l_nlink;
			CHECK(n >= 1 && n <= 2 && l_link_ok == 1 && l_link_ret[n - 1] == 0, "exactly one link succeeded, the last attempt");
			CHECK(l_link_dir[n - 1] == EXT2_ROOT_INO && l_link_ino[n - 1] == ino && l_link_flags[n - 1] == EXT2_FT_DIR &&
			      memcmp(l_link_name[n - 1], "lost+found", 11) == 0, "linked into the root as \"lost+found\", type directory");
			CHECK(l_wdb_ev < l_link_ev[0], "linked only when complete");
			if (n == 2) {
				CHECK(l_link_ret[0] == EXT2_ET_DIR_NO_SPACE && l_libexp_ok + l_exp_ok == 1 &&
				      (l_libexp_ok ? l_libexp_dir : l_exp_dir) == EXT2_ROOT_INO,
				      "a second attempt only after 'no space' and a successful growth of the root");
			} else
				CHECK(l_libexp_calls + l_exp_calls == 0, "the root is not grown without need");
			/* e2fsck's books */
			CHECK(l_adi == 1 && l_adi_ino == ino && l_adi_parent == EXT2_ROOT_INO, "dirinfo: child of the root");
			CHECK(l_adj_root_inc == 1 && l_adj_other == (l_unlink_calls ? 1u : 0u) && l_adj_root_inc_ev > l_link_ev[n - 1],
			      "the root's link counts are adjusted by +1 exactly once, after the link (the only other adjustment: -1 for an unlinked old lost+found)");
			CHECK(l_store[0] == 1 && l_store[1] == 1 && l_store_val[0] == 2 && l_store_val[1] == 2 &&
			      l_store_ino[0] == ino && l_store_ino[1] == ino, "found and recorded link counts are both 2");
			CHECK(l_qadd == 1 && l_qadd_ino == ino && l_qadd_space == cluster_size && !l_qadd_badctx && l_qadd_uid == 0,
			      "quota: one CLUSTER charged, once");
			CHECK(l_qino == 1 && l_qino_ino == ino && l_qino_sum == 1, "quota: one inode charged, once");
			CHECK(l_raised(PR_3_NO_LF_DIR) == 1 && l_raised(PR_3_CREATE_LPF_ERROR) == 0, "asked once; no creation error reported");
		} else if (what == W_ROOTEXP) {
			if (l_nlink == 2) {
				CHECK(l_libexp_ok == 0 || l_qadd_root != 0,
				      "the block added to the root is charged to the quota (grown by e2fsck_expand_directory, or charged explicitly)");
			}
		} else
			lpf_acceptance(what, ino, blk, 0700);
	}
	REACH("end");
}
void h_lnf_book(void) { lnf_common(W_BOOK); }
void h_lnf_next(void) { lnf_common(W_NEXT); }
void h_lnf_next_bigalloc(void) { lnf_common(W_NEXT_BIGALLOC); }
void h_lnf_next_64bit(void) { lnf_common(W_NEXT_64BIT); }
void h_lnf_conv(void) { lnf_common(W_CONV); }
void h_lnf_rootexp(void) { lnf_common(W_ROOTEXP); }

/* ================= check_root ================= */
static void root_common(int what)
{
	unsigned long long blk, cluster_size;
	unsigned int sect;

	LOAD_IN();
	lpf_world();
	lpf_config(what);
	ASSUME(!(IN.ctxflags & E2F_FLAG_ABORT));
	blk = IN.repair_block ? IN.repair_block : IN.new_block;
	cluster_size = (unsigned long long) lpf_blocksize() << lpf_ratio_bits();
	sect = (lpf_blocksize() >> 9) << lpf_ratio_bits();

	check_root(&CTX);

	if (!(IN.root_used & 1) && l_nlog >= 1 && l_ans[0] && !(CTX.flags & E2F_FLAG_ABORT)) {
		REACH("root created");
		if (what == W_BOOK) {
			CHECK(l_nlog == 1 && l_code[0] == PR_3_NO_ROOT_INODE, "asked once, nothing else reported");
			CHECK(l_rb_calls >= 1 && (l_newblk_calls == 0 || l_rb_ev < l_newblk_ev), "the bitmaps are read before anything is allocated");
			CHECK(l_newblk_calls == (IN.repair_block == 0) && !l_newblk_badmap,
			      "a block is allocated (on block_found_map) unless pass 1 has reserved one");
			CHECK(CTX.root_repair_block == 0, "the reserved block is consumed");
			CHECK(l_marks(H_FOUND, blk) == (IN.repair_block == 0),
			      "block_found_map: a newly allocated block is marked once (the reserved one was marked by pass 1)");
			CHECK(l_marks(H_BMAP, blk) == 1 && (FS.flags & EXT2_FLAG_BB_DIRTY) && (FS.flags & EXT2_FLAG_CHANGED),
			      "filesystem block bitmap: marked once, bitmap dirty");
			CHECK(l_marks(H_USED, EXT2_ROOT_INO) == 1 && l_marks(H_DIRMAP, EXT2_ROOT_INO) == 1 && g_root_used && g_root_dir,
			      "inode_used_map and inode_dir_map marked once each");
			CHECK(l_marks(H_IMAP, EXT2_ROOT_INO) == 1 && (FS.flags & EXT2_FLAG_IB_DIRTY), "filesystem inode bitmap: marked once, bitmap dirty");
			CHECK(l_nmark == 4 + (IN.repair_block == 0) && l_nunmark == 0, "no other bit of any map is touched");
			CHECK(l_wni == 1 && l_wni_ino == EXT2_ROOT_INO, "inode 2 is written once");
			CHECK(l_wni_img.i_mode == 040755 && l_wni_img.i_links_count == 2 && l_wni_img.i_size == lpf_blocksize() &&
			      l_wni_img.i_size_high == 0 && l_wni_img.i_dtime == 0 && l_wni_img.i_uid == 0 && l_wni_img.i_gid == 0,
			      "a directory 0755 owned by root with 2 links and one block of size");
			CHECK(l_wni_img.i_blocks == sect && l_wni_img.osd2.linux2.l_i_blocks_hi == 0 && l_disk.i_blocks == sect,
			      "i_blocks accounts exactly one cluster (in 512-byte sectors)");
			CHECK(l_bmap_foreign == 0 && l_bmap_calls <= 1, "ext2fs_bmap2 is used, if at all, once to SET a mapping in the caller's inode");
			CHECK((!(l_wni_img.i_flags & EXT4_EXTENTS_FL) && l_wni_img.i_block[0] == (__u32) blk) ||
			      (l_bmap_ok == 1 && l_bmap_ino == EXT2_ROOT_INO && l_bmap_lblk == 0 && l_bmap_pblk == blk && l_wni_ev < l_bmap_ev),
			      "the block is attached: i_block[0] of a block-mapped inode (whether 32 bits can hold it: rule R6 of the acceptance units), or ext2fs_bmap2(SET, 0 -> block) once the inode exists");
			CHECK(l_ndb == 1 && l_ndb_ino == EXT2_ROOT_INO && l_ndb_parent == EXT2_ROOT_INO, "a fresh directory block: '.' = '..' = 2");
			CHECK(l_wdb == 1 && l_wdb_blk == blk && l_wdb_ino == EXT2_ROOT_INO && l_wdb_flags == 0,
			      "written (checksummed for inode 2) to the block");
			CHECK(l_wni_ev < l_wdb_ev, "inode before directory block (checksum seed)");
			CHECK(l_adi == 1 && l_adi_ino == EXT2_ROOT_INO && l_adi_parent == EXT2_ROOT_INO, "dirinfo: the root is its own parent");
			CHECK(l_store[0] == 1 && l_store[1] == 1 && l_store_val[0] == 2 && l_store_val[1] == 2 &&
			      l_store_ino[0] == EXT2_ROOT_INO && l_store_ino[1] == EXT2_ROOT_INO, "found and recorded link counts are both 2");
			CHECK(l_qadd_root_calls == 1 && l_qadd_root == cluster_size && l_qadd == 0 && !l_qadd_badctx && l_qadd_uid == 0,
			      "quota: one CLUSTER charged, once");
			CHECK(l_qino == 1 && l_qino_ino == EXT2_ROOT_INO && l_qino_sum == 1, "quota: one inode charged, once");
			CHECK(l_nlink == 0 && l_adj_calls == 0, "the root is nobody's child: no link, no parent count");
		} else
			lpf_acceptance(what, EXT2_ROOT_INO, blk, 0755);
	}
	REACH("end");
}
void h_root_book(void) { root_common(W_BOOK); }
void h_root_next(void) { root_common(W_NEXT); }
void h_root_next_bigalloc(void) { root_common(W_NEXT_BIGALLOC); }
void h_root_next_64bit(void) { root_common(W_NEXT_64BIT); }
void h_root_conv(void) { root_common(W_CONV); }
